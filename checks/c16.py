"""C16  Replies depend on the bytes sent, not on packetisation; bad input is contained.

Specification: spec/Proto.tla (byte-level framing of the four request syntaxes, carry-over
buffer, message loop), spec/ProtoGen.tla (segmentation machine: every segmentation of every
small stream; SplitInvariant, OnePerCommand), spec/ProtoSim.tla (long pipelines / big values on
the message level), spec/ProtoMal.tla (single-operator mutations of every frame kind, random
byte strings; Contained).

Binding (model -> code): TLC's streams are sent as literal bytes to real servers under TLC's
2-way / 3-way cuts, byte-at-a-time and random k-way cuts; the parsed reply sequence must equal
the unsplit run's and the specification's (number, order, transport, encoding, content).  TLC's
malformed inputs go to tile38-server subprocesses: outcome as specified, bystander connection
answers, process alive.
"""
import concurrent.futures
import json
import os
import threading

from . import common
from .common import cfg_consts

# token -> concrete spelling; the same table goes into the specification (Tok) and to the harness
TOKENS = {
    "PING": "PING", "ECHO": "ECHO", "GET": "GET", "SET": "SET", "STRING": "STRING", "ZZ": "ZZ",
    "K": "k", "a": "a", "b": "b", "x": "x", "m1": "m1", "m2": "m2", "qs": "q r",
}
for _i in range(1, 9):
    TOKENS["i%d" % _i] = "id%d" % _i
for _i in range(1, 6):
    TOKENS["v%d" % _i] = "val-%d" % _i
    TOKENS["n%d" % _i] = "mark-%d" % _i
# values larger than the server's read buffer (0xFFFF): placeholders in the specification, expanded by the harness
BIG = {"BIG": "@REP:204800:0123456789abcdefghijklmnopqrstuvwxyz", "BIG2": "@REP:70000:ZYXWVUTSRQ",
       # expanded by the harness so that the whole stream is <rem> bytes longer than a multiple of <mod> (the read buffer + 1 / the read buffer)
       "PAD0": "@PAD:65536:0", "PAD1": "@PAD:65536:1", "PADm": "@PAD:65536:65535", "PADq": "@PAD:65535:0"}

C_PING = '<<"PING">>'
C_ECHO = '<<"ECHO", "m1">>'
C_GET = '<<"GET", "K", "a">>'
C_SET = '<<"SET", "K", "a", "STRING", "x">>'
C_SETQ = '<<"SET", "K", "b", "STRING", "qs">>'
C_ZZ = '<<"ZZ">>'
SYNTAXES = ["resp", "telnet", "native", "hget", "hpost"]

_lock = threading.Lock()
_nrep = {}


def rname(label):
    """replay file names: the first few disagreements of a stage keep their own file"""
    _nrep[label] = _nrep.get(label, 0) + 1
    return "c16-%s-%d" % (label, min(_nrep[label], 6))


def tla_bytes(s):
    return "<<" + ", ".join(str(c) for c in s.encode()) + ">>"


def tok_def():
    t = dict(TOKENS)
    for k in BIG:
        t[k] = k
    return "MCTok == " + " @@ ".join('"%s" :> %s' % (k, tla_bytes(v)) for k, v in sorted(t.items()))


def sset(xs):
    return "{" + ", ".join('"%s"' % x for x in xs) + "}"


def write_tokens(ctx):
    p = os.path.join(ctx.scratch, "tokens.json")
    if not os.path.exists(p):
        t = dict(TOKENS)
        t.update(BIG)
        with open(p, "w") as f:
            json.dump(t, f)
    return p


# the two read buffers of a connection, as coded (0xFFFF each)
BASE = dict(Tok="<- MCTok", NegBulk="index", Panics="recover", ReadBuf=65535, PktBuf=65535)


def model_error(r, what):
    raise common.Infra("the Proto model violates its own property %s in %s (specification error): see %s"
                       % (r["violated"], what, r["out"]))


# ---------------------------------------------------------------------------- stage: segmentation
def gen_cuts(ctx, name, kinds, cmds, maxframes, chunks, sniff="line", workers=None, timeout=1500):
    mc = """---- MODULE MC_%s ----
EXTENDS ProtoGen
%s
MCKinds == %s
MCCmds == {%s}
MCIds == {"a", "b"}
====
""" % (name, tok_def(), sset(kinds), ", ".join(cmds))
    cfg = ("SPECIFICATION Spec\n" +
           cfg_consts(Sniff=sniff, Kinds="<- MCKinds", Cmds="<- MCCmds", Ids="<- MCIds", MaxFrames=maxframes,
                      EmitChunks=chunks, **BASE) +
           "VIEW View\nINVARIANT SplitInvariant OnePerCommand CarryIncomplete\nPROPERTY Emit\n")
    r = ctx.tlc(name, ["Proto.tla", "ProtoGen.tla"], mc, cfg, workers=workers, timeout=timeout)
    if not r["ok"]:
        model_error(r, name)
    beh = os.path.join(r["dir"], "cases.ndjson")
    n = ctx.extract_tr(r["out"], beh)
    os.remove(r["out"])
    ctx.log("TLC %s: %d distinct states, %d transitions (all segmentations), %d behaviours emitted"
            % (name, r["distinct"], r["generated"], n))
    return r, beh, n


def run_split(ctx, label, beh, par=16, extra=(), random=2, pause_us=300, bat=True):
    def once(pause):
        rc, js, err = ctx.harness(["proto-split", "-in", beh, "-tok", write_tokens(ctx), "-par", str(par), "-random", str(random),
                                   "-pause-us", str(pause), "-probe-every", "40", "-byte-at-a-time=%s" % ("true" if bat else "false")]
                                  + list(extra), timeout=3000)
        return js
    js = once(pause_us)
    st = js["stats"]

    def consumed(st):
        return st["segments_probed"] < 50 or st["segments_consumed_before_next_write"] >= 0.8 * st["segments_probed"]
    if not consumed(st) and not (js.get("mismatches") or []):
        # the server did not get to read most segments before the next one was written (busy machine): the kernel
        # coalesces them and the segmentation under test is not the one delivered.  Deliver again with a longer pause.
        ctx.log("split %s: only %d/%d probed segments were consumed before the next write; repeating with a %d us pause"
                % (label, st["segments_consumed_before_next_write"], st["segments_probed"], pause_us * 10))
        js = once(pause_us * 10)
        st = js["stats"]
    mism = js.get("mismatches") or []
    ctx.log("split %s: %d streams, %d runs %s, %d reply frames, %d mismatches; %d/%d probed segments were consumed before the next write"
            % (label, st["streams"], st["runs"], json.dumps(st["runs_by_kind"], sort_keys=True), st["reply_frames_compared"],
               len(mism), st["segments_consumed_before_next_write"], st["segments_probed"]))
    for m in mism:
        text = "stage=%s %s: stream %s cuts %s: %s (got %s)" % (label, m["what"], m["stream"], m.get("cuts"), m["detail"], m.get("got"))
        with _lock:
            common.report(ctx, rname(label), text, {"kind": "split", "stage": label, "extra": list(extra), "line": m["group"], "mismatch": m})
    if st["runs"] == 0 or st["reply_frames_compared"] == 0:
        raise common.Infra("stage %s compared nothing (vacuous)" % label)
    if not consumed(st):
        # coalesced segments reduce what was covered, they cannot cause an alarm: recorded, and an error only when
        # hardly any segmentation got through as sent
        ctx.notes.append("stage %s: %d of %d probed segments were read by the server before the next one was written "
                         "(busy machine); the remaining segment boundaries may have been coalesced by the kernel"
                         % (label, st["segments_consumed_before_next_write"], st["segments_probed"]))
        if st["segments_consumed_before_next_write"] < 0.4 * st["segments_probed"]:
            raise common.Infra("stage %s: only %d of %d probed segments were read by the server before the next one was written, "
                               "even with a %d us pause (machine too loaded; segmentations would be coalesced)"
                               % (label, st["segments_consumed_before_next_write"], st["segments_probed"], pause_us * 10))
    return st, js


# ---------------------------------------------------------------------------- stage: long streams
def gen_long(ctx, name, lens, num, big_one_in, timeout=1500, last=None):
    ids = ["i%d" % i for i in range(1, 9)]
    vals = ["v%d" % i for i in range(1, 6)] + ["qs"]
    marks = ["n%d" % i for i in range(1, 6)]
    mc = """---- MODULE MC_%s ----
EXTENDS ProtoSim
%s
MCKinds == {"resp", "telnet", "native"}
MCLast == {"resp", "telnet", "native", "hget", "hpost"}
MCIds == %s
MCVals == %s
MCMarks == %s
MCBig == {"BIG", "BIG2"}
MCLens == {%s}
MCLastCmd == %s
====
""" % (name, tok_def(), sset(ids), sset(vals), sset(marks), ", ".join(str(x) for x in lens),
       ("<<" + ", ".join('"%s"' % a for a in last) + ">>") if last else "<<>>")
    cfg = ("SPECIFICATION SimSpec\n" +
           cfg_consts(Sniff="line", Kinds="<- MCKinds", LastKinds="<- MCLast", Ids="<- MCIds", Vals="<- MCVals",
                      Marks="<- MCMarks", BigVals="<- MCBig", BigOneIn=big_one_in, Lens="<- MCLens", LastCmd="<- MCLastCmd", **BASE) +
           "INVARIANT Shape\n")
    # RandomElement draws from one generator per worker, all seeded alike: one worker
    r = ctx.tlc(name, ["Proto.tla", "ProtoSim.tla"], mc, cfg, workers=1, simulate=num, depth=max(lens) + 5, timeout=timeout)
    if not r["ok"]:
        model_error(r, name)
    beh = os.path.join(r["dir"], "cases.ndjson")
    n = ctx.extract_tr(r["out"], beh)
    ctx.log("TLC %s (simulate): %d streams of %s frames" % (name, n, lens))
    if n == 0:
        raise common.Infra("ProtoSim generated nothing")
    return r, beh, n


def run_long(ctx, label, beh, par, random, twoway, bytemax, burst=False):
    rc, js, err = ctx.harness(["proto-long", "-in", beh, "-tok", write_tokens(ctx), "-par", str(par), "-random", str(random),
                               "-twoway", str(twoway), "-byte-max", str(bytemax)] + (["-burst"] if burst else []), timeout=3000)
    st = js["stats"]
    mism = js.get("mismatches") or []
    ctx.log("long %s: %d streams (longest pipeline %d frames, largest value %d bytes), %d runs %s, %d reply frames, %d mismatches"
            % (label, st["streams"], st["longest_pipeline_frames"], st["largest_value_bytes"], st["runs"],
               json.dumps(st["runs_by_kind"], sort_keys=True), st["reply_frames_compared"], len(mism)))
    for m in mism:
        text = "stage=%s %s: stream %s cuts %s: %s (got %s)" % (label, m["what"], m["stream"][:300], (m.get("cuts") or [])[:12], m["detail"], (m.get("got") or [])[-3:])
        with _lock:
            common.report(ctx, rname(label), text, {"kind": "long", "stage": label, "burst": burst, "line": m["group"], "mismatch": {k: m.get(k) for k in ("what", "detail", "cuts")}})
    if st["runs"] == 0 or st["reply_frames_compared"] == 0:
        raise common.Infra("stage %s compared nothing (vacuous)" % label)
    return st, js


# ---------------------------------------------------------------------------- stage: malformed input
REP_QUICK = [0, 10, 34, 45, 255]
REP_FULL = [0, 255, 10, 13, 32, 34, 36, 42, 45, 48, 57, 71]
SIM_ALPHABET = [0, 255, 10, 13, 32, 34, 39, 92, 36, 42, 45, 48, 49, 57, 71, 80, 79, 69, 84, 72, 47, 58, 46, 97, 123, 37, 43]


def mal_module(name, rep):
    return """---- MODULE MC_%s ----
EXTENDS ProtoMal
%s
MCKinds == %s
MCCmds == {%s, %s}
MCIds == {"a", "b"}
MCRep == {%s}
MCAlpha == {%s}
====
""" % (name, tok_def(), sset(SYNTAXES), C_ECHO, C_SET, ", ".join(map(str, rep)), ", ".join(map(str, SIM_ALPHABET)))


def mal_cfg(spec, negbulk, invariants=True, panics="recover"):
    # the framing of malformed input is compared with the intended sniffing rule (first LF-terminated line; fixed in aa35bd8)
    return ("SPECIFICATION %s\n" % spec +
            cfg_consts(Tok="<- MCTok", NegBulk=negbulk, Panics=panics, ReadBuf=65535, PktBuf=65535, Sniff="line", Kinds="<- MCKinds", BaseCmds="<- MCCmds",
                       RepBytes="<- MCRep", Ids="<- MCIds", SimLen=40, SimAlphabet="<- MCAlpha") +
            ("INVARIANT Contained ErrorCloses\n" if invariants else ""))


def gen_mal(ctx, name, rep, timeout=1500):
    # as coded today: lengths are not range-checked (NegBulk = index) but a parser panic is recovered per command
    r = ctx.tlc(name, ["Proto.tla", "ProtoMal.tla"], mal_module(name, rep), mal_cfg("Spec", "index"), workers=8, timeout=timeout)
    if not r["ok"]:
        model_error(r, name)
    beh = os.path.join(r["dir"], "cases.ndjson")
    n = ctx.extract_tr(r["out"], beh)
    ctx.log("TLC %s: %d single-operator mutations; Contained and ErrorCloses hold on the design as coded (panics recovered per command)" % (name, n))
    return r, beh, n


def gen_mal_ascoded(ctx, name, rep):
    """Design-level: with the bulk length check as coded, TLC refutes Contained (the model predicts the crash)."""
    r = ctx.tlc(name, ["Proto.tla", "ProtoMal.tla"], mal_module(name, rep), mal_cfg("Spec", "index", panics="crash"), workers=8,
                timeout=900, expect_violation=True)
    if r["violated"] != "Contained":
        raise common.Infra("as-coded configuration (NegBulk=index): TLC was expected to refute Contained, got %s" % r["violated"])
    ctx.log("TLC %s: with Panics = crash (as coded before 59d973f/9fc07cf) Contained is refuted: an unchecked length indexes outside the packet and kills the process" % name)
    return r


def gen_mal_sim(ctx, name, num, timeout=3000):
    depth = 200
    r = ctx.tlc(name, ["Proto.tla", "ProtoMal.tla"], mal_module(name, REP_QUICK), mal_cfg("SimSpec", "index", invariants=False),
                workers=1, simulate=max(1, num * 2 // depth), depth=depth, timeout=timeout)
    if not r["ok"]:
        model_error(r, name)
    beh = os.path.join(r["dir"], "cases.ndjson")
    n = ctx.extract_tr(r["out"], beh)
    ctx.log("TLC %s (simulate): %d random byte strings / random multi-edit mutants with their specified outcome" % (name, n))
    return r, beh, n


def run_mal(ctx, label, beh, server, par=8):
    rc, js, err = ctx.harness(["proto-mal", "-in", beh, "-server", server, "-par", str(par), "-max-mismatch", "25"], timeout=3000)
    st = js["stats"]
    mism = js.get("mismatches") or []
    ctx.log("malformed %s: %d inputs (%d operators) %s, %d bystander checks, %d process deaths, %d disagreements"
            % (label, st["cases"], st["distinct_operators"], json.dumps(st["cases_by_specified_outcome"], sort_keys=True),
               st["bystander_checks"], st["process_deaths"], len(mism)))
    framing = 0
    for m in mism:
        if m["what"] == "malformed-vs-spec":
            # The specification frames malformed input as the code does today (how many replies, whether the connection is
            # closed or keeps waiting).  The statement demands less: no crash, other connections unaffected, "answered with
            # an error or that connection is closed" - a parser that closes where today's answers an error (or the other
            # way round, or tolerates the input) still satisfies it.  Such differences are recorded, not judged; a dead
            # process and a silent bystander are the verdicts of this stage.
            framing += 1
            if framing == 1:
                ctx.log("%s: framing of a malformed input differs from the as-coded specification (recorded, not judged): %s"
                        % (label, ("input %s: %s (got %s)" % (m["stream"], m["detail"], m.get("got")))[:500]))
            continue
        text = "stage=%s %s: input %s: %s (got %s)" % (label, m["what"], m["stream"], m["detail"], m.get("got"))
        with _lock:
            common.report(ctx, rname(label), text, {"kind": "mal", "stage": label, "line": m["group"], "mismatch": {k: m[k] for k in ("what", "detail")}})
    st["framing_differs_from_spec"] = framing
    if st["cases"] == 0 or st["bystander_checks"] == 0:
        raise common.Infra("stage %s compared nothing (vacuous)" % label)
    return st, js


# ---------------------------------------------------------------------------- the check
def run(ctx):
    if ctx.replay:
        return run_replay(ctx)
    q = ctx.quick
    server = common.build_server()
    res = {}
    tlc = {"states": 0, "transitions": 0}

    def acc_tlc(r):
        with _lock:
            tlc["states"] += r["distinct"] if r["mode"] == "bfs" else r["generated"]
            tlc["transitions"] += r["generated"]

    # -- pipelines of independent stages, run side by side (TLC and the drivers are mostly waiting on each other)
    def stage_cuts3():
        # every 2-way and 3-way cut of every stream of <= 2 frames, all five syntaxes
        cmds = [C_PING, C_ECHO, C_GET] if q else [C_PING, C_ECHO, C_GET, C_SET, C_ZZ]
        r, beh, n = gen_cuts(ctx, "cuts3", SYNTAXES, cmds, 2, 2, workers=8)
        acc_tlc(r)
        res["cuts3"] = run_split(ctx, "cuts3", beh, par=12)
        os.remove(beh)

    def stage_cuts2():
        # the full command alphabet (quoted value, SET/GET on the store, unknown command): every 2-way cut;
        # thorough: streams of 3 frames as well
        r, beh, n = gen_cuts(ctx, "cuts2", SYNTAXES, [C_PING, C_ECHO, C_GET, C_SET, C_SETQ, C_ZZ], 2, 1, workers=6)
        acc_tlc(r)
        res["cuts2"] = run_split(ctx, "cuts2", beh, par=8, random=4)
        os.remove(beh)
        if not q:
            r, beh, n = gen_cuts(ctx, "frames3", SYNTAXES, [C_PING, C_GET, C_SET], 3, 1, workers=8, timeout=3000)
            acc_tlc(r)
            res["frames3"] = run_split(ctx, "frames3", beh, par=8, random=2)
            os.remove(beh)

    def stage_lf():
        # telnet-style lines ended by a bare LF, alone and mixed with RESP; replies delimited by count and silence
        r, beh, n = gen_cuts(ctx, "telnetlf", ["tellf", "resp"], [C_PING, C_ECHO, C_SET], 2, 1, workers=4)
        acc_tlc(r)
        res["telnet-lf"] = run_split(ctx, "telnet-lf", beh, par=8, random=1,
                                     extra=["-no-sentinel", "-timeout-ms", "400", "-dev-name", "Sniff=crlf"])

    def stage_long():
        r, beh, n = gen_long(ctx, "long", [6, ctx.pick(1500, 5000)], ctx.pick(8, 40), 250)
        acc_tlc(r)
        res["long"] = run_long(ctx, "long", beh, par=ctx.pick(4, 8), random=ctx.pick(6, 20), twoway=ctx.pick(30, 200),
                               bytemax=ctx.pick(20000, 60000))

    def stage_burst():
        # streams whose total length is a multiple of the read buffer (+1), one byte more / less: the whole stream is
        # queued in the socket while the connection is busy (SLEEP), so that the server's reads return full buffers
        sts = []
        for pad in ("PAD0", "PAD1", "PADm", "PADq"):
            # (no values above the read buffer here: the whole stream has to fit into the socket's receive queue)
            r, beh, n = gen_long(ctx, "burst_" + pad, [12, 40, ctx.pick(300, 1200)], ctx.pick(3, 9), 1000000, last=["ECHO", pad])
            acc_tlc(r)
            sts.append(run_long(ctx, "burst-" + pad, beh, par=3, random=0, twoway=0, bytemax=0, burst=True))
        res["burst"] = sts

    def stage_bufs():
        # design level: the two buffers of a connection with small sizes.  Equal sizes (as coded): every segmentation of
        # every stream satisfies SplitInvariant / OnePerCommand / CarryIncomplete; a read buffer one byte larger than the
        # parser's packet buffer leaves bytes behind until the next read (refuted)
        def cfg(rb, pb):
            c = dict(BASE, ReadBuf=rb, PktBuf=pb)
            return ("SPECIFICATION Spec\n" + cfg_consts(Sniff="line", Kinds="<- MCKinds", Cmds="<- MCCmds", Ids="<- MCIds", MaxFrames=2,
                                                        EmitChunks=0, **c) + "VIEW View\nINVARIANT SplitInvariant OnePerCommand CarryIncomplete\n")
        mc = "---- MODULE MC_%%s ----\nEXTENDS ProtoGen\n%s\nMCKinds == %s\nMCCmds == {%s}\nMCIds == {\"a\", \"b\"}\n====\n" % (
            tok_def(), sset(["resp", "telnet", "native"]), ", ".join([C_PING, C_ECHO, C_GET]))
        r = ctx.tlc("bufs_eq", ["Proto.tla", "ProtoGen.tla"], mc % "bufs_eq", cfg(9, 9), workers=4, timeout=900)
        if not r["ok"]:
            model_error(r, "bufs_eq")
        acc_tlc(r)
        r2 = ctx.tlc("bufs_plus1", ["Proto.tla", "ProtoGen.tla"], mc % "bufs_plus1", cfg(10, 9), workers=4, timeout=900, expect_violation=True)
        if r2["violated"] is None:
            raise common.Infra("a read buffer larger than the packet buffer is not refuted by the model (vacuous)")
        res["bufs"] = r2["violated"]
        ctx.log("TLC bufs: read buffer = packet buffer = 9 bytes: %d states, all segmentations satisfy the invariants; read buffer 10 / "
                "packet buffer 9 violates %s (bytes wait for the next read)" % (r["distinct"], r2["violated"]))

    def stage_mal():
        rep = REP_QUICK if q else REP_FULL
        r, beh, n = gen_mal(ctx, "mal", rep)
        acc_tlc(r)
        res["mal"] = run_mal(ctx, "malformed", beh, server)
        r2 = gen_mal_ascoded(ctx, "malascoded", REP_QUICK)
        res["ascoded"] = r2["violated"]
        r, beh, n = gen_mal_sim(ctx, "malsim", ctx.pick(3000, 100000))
        acc_tlc(r)
        res["malsim"] = run_mal(ctx, "malformed-random", beh, server)

    stages = [stage_cuts3, stage_cuts2, stage_lf, stage_long, stage_bufs, stage_burst, stage_mal]
    with concurrent.futures.ThreadPoolExecutor(max_workers=ctx.pick(3, 3)) as ex:
        futs = [ex.submit(s) for s in stages]
        errs = []
        for f in futs:
            try:
                f.result()
            except Exception as e:     # first infrastructure error wins, after all stages ended
                errs.append(e)
        if errs:
            raise errs[0]

    split_stages = [k for k in ("cuts3", "cuts2", "frames3", "telnet-lf") if k in res]
    runs = sum(res[k][0]["runs"] for k in split_stages) + res["long"][0]["runs"] + sum(b[0]["runs"] for b in res["burst"])
    frames = (sum(res[k][0]["reply_frames_compared"] for k in split_stages) + res["long"][0]["reply_frames_compared"] +
              sum(b[0]["reply_frames_compared"] for b in res["burst"]))
    by_kind = {}
    for k in split_stages + ["long"]:
        for kk, v in res[k][0]["runs_by_kind"].items():
            by_kind[kk] = by_kind.get(kk, 0) + v
    mal_cases = res["mal"][0]["cases"] + res["malsim"][0]["cases"]
    samples = []
    for k in ("cuts3", "telnet-lf", "long", "mal", "malsim"):
        s = res[k][1].get("samples") or []
        if s:
            samples.append({"stage": k, "case": json.dumps(s[0])[:1200]})
    common.write_evidence(ctx, "model_checking", {
        "states": tlc["states"],
        "transitions": tlc["transitions"],
        "traces_validated_against_impl": runs + mal_cases,
        "samples": samples,
        "segmentation": {
            "streams": sum(res[k][0]["streams"] for k in split_stages) + res["long"][0]["streams"],
            "deliveries_compared": runs,
            "deliveries_by_kind": by_kind,
            "reply_frames_compared": frames,
            "client_encodings_checked_against_spec": sum(res[k][0]["encodings_checked_against_spec"] for k in split_stages),
            "segments_probed": sum(res[k][0]["segments_probed"] for k in split_stages),
            "segments_consumed_by_server_before_next_write": sum(res[k][0]["segments_consumed_before_next_write"] for k in split_stages),
            "longest_pipeline_frames": res["long"][0]["longest_pipeline_frames"],
            "largest_value_bytes": res["long"][0]["largest_value_bytes"],
            "burst_deliveries_with_the_connection_busy": sum(b[0]["runs_by_kind"].get("burst", 0) for b in res["burst"]),
            "two_level_buffer_design": "ReadBuf = PktBuf holds; ReadBuf = PktBuf + 1 violates %s" % res["bufs"],
        },
        "fault_enumeration": {
            "single_operator_mutations": res["mal"][0]["cases"],
            "distinct_operators": res["mal"][0]["distinct_operators"],
            "by_frame_kind": res["mal"][0]["cases_by_frame_kind"],
            "by_specified_outcome": res["mal"][0]["cases_by_specified_outcome"],
            "random_inputs": res["malsim"][0]["cases"],
            "bystander_checks": res["mal"][0]["bystander_checks"] + res["malsim"][0]["bystander_checks"],
            "liveness_checks": res["mal"][0]["liveness_checks"] + res["malsim"][0]["liveness_checks"],
            "process_deaths": res["mal"][0]["process_deaths"] + res["malsim"][0]["process_deaths"],
            "inputs_framed_differently_from_the_as_coded_specification_not_judged": res["mal"][0].get("framing_differs_from_spec", 0) + res["malsim"][0].get("framing_differs_from_spec", 0),
            "reply_frames_compared": res["mal"][0]["reply_frames_compared"] + res["malsim"][0]["reply_frames_compared"],
            "as_coded_deviation_refuted_by_TLC": "NegBulk=index with Panics=crash (before the fix) violates %s" % res["ascoded"],
        },
        "exhaustive": True,
        "explanation": "ProtoGen's reachable graph contains every segmentation of every generated stream (Seg(n) for every n); "
                       "SplitInvariant / OnePerCommand are checked on all of it.  The real servers received every stream unsplit, "
                       "under every 2-way cut (and every 3-way cut in stage cuts3), byte-at-a-time and under random k-way cuts. "
                       "Malformed inputs: every single-operator mutation of every frame kind plus random inputs, one per connection, "
                       "against tile38-server subprocesses.",
    }, [
        "segments are separated by TCP_NODELAY writes and a pause; a sample of them is verified through NETLINK_SOCK_DIAG "
        "(server-side receive queue empty before the next write); coalesced segments reduce coverage, never cause alarms",
        "the framing of malformed input is specified as coded (statement: error or close; the check compares number/kind of "
        "replies, close, and liveness); reply texts of mutated commands are not compared",
        "not modelled: WebSocket upgrade, OPTIONS preflight, QUIT, OUTPUT switching, Sec-Websocket-* headers; "
        "lengths of more than 9 digits are the class 'huge' (TLC integers are 32 bit)",
        "HTTP requests appear only as the last frame of a stream (the server closes after one request)",
    ])


def run_replay(ctx):
    p = json.load(open(ctx.replay))
    line = p["line"]
    f = os.path.join(ctx.scratch, "replay.ndjson")
    with open(f, "w") as fo:
        fo.write(json.dumps(line) + "\n")
    if p["kind"] == "split":
        run_split(ctx, p["stage"], f, par=1, extra=p.get("extra") or [], random=0, bat=False)
    elif p["kind"] == "long":
        run_long(ctx, p["stage"], f, par=1, random=0, twoway=0, bytemax=0, burst=bool(p.get("burst")))
    elif p["kind"] == "mal":
        run_mal(ctx, p["stage"], f, common.build_server(), par=1)
    else:
        raise common.Infra("unknown replay kind %r" % p.get("kind"))
