#!/usr/bin/env python3
"""Self-test of the C11 check: the binding between specification and code is real (not vacuous).

    cd /verif && python3 -m checks.c11_selftest [--seed N]

Runs the small exhaustive leg of checks/c11.py against the unchanged tree five times:
  baseline            nothing corrupted                                        -> no VIOLATION expected
  gen-desc-start      CursorGen forgets that Descend(bound) counts an id equal
                      to the bound (one comparison changed)                   -> predicted cursors differ
  rule-counts-items   Cursor's rule reports items returned, not entries
                      iterated (one expression changed)                       -> predicted cursors / replies differ
  case-value          one expected reply in the generated cases is altered    -> that reply differs
  stmt-no-empty-last  Cursor!Satisfies additionally forbids an empty last
                      reply (stricter than the statement)                     -> CursorTrace rejects recorded runs
Each corrupted run must report VIOLATIONs.  Replay files of these runs go to the scratch directory and
evidence/C11.json is restored afterwards, so the self-test leaves no trace in the framework.  Exit 0 iff the
baseline is clean and every corruption is detected.
"""
import argparse
import io
import os
import shutil
import sys
from contextlib import redirect_stdout

HERE = os.path.dirname(os.path.dirname(os.path.abspath(__file__)))
sys.path.insert(0, HERE)
from checks import c11, common  # noqa: E402


def one(seed, mutate):
    ctx = common.Ctx("C11", "quick", seed)
    ctx.replaydir = os.path.join(ctx.scratch, "replays")
    ctx.c11_small = True
    ctx.c11_mutate = mutate
    buf = io.StringIO()
    try:
        with redirect_stdout(buf):
            c11.run(ctx)
        out = buf.getvalue()
        nviol = len(ctx.violations)
        first = ctx.violations[0][1][:400] if ctx.violations else ""
        return nviol, first, out
    finally:
        ctx.cleanup()


def main():
    ap = argparse.ArgumentParser()
    ap.add_argument("--seed", type=int, default=1)
    ap.add_argument("--no-build", action="store_true")
    a = ap.parse_args()
    if not a.no_build:
        common.build_harness()
    ev = os.path.join(common.VERIF, "evidence", "C11.json")
    keep = ev + ".selftest-keep"
    if os.path.exists(ev):
        shutil.copyfile(ev, keep)
    ok = True
    try:
        for m in (None, "gen-desc-start", "rule-counts-items", "case-value", "stmt-no-empty-last"):
            try:
                n, first, out = one(a.seed, m)
            except common.Infra as e:
                print("SELFTEST %-20s INFRA: %s" % (m or "baseline", str(e)[:500]))
                ok = False
                continue
            good = (n == 0) if m is None else (n > 0)
            ok = ok and good
            print("SELFTEST %-20s %s: %d VIOLATION line(s)%s" %
                  (m or "baseline", "as expected" if good else "UNEXPECTED", n, ("; first: " + first) if first else ""))
    finally:
        if os.path.exists(keep):
            shutil.move(keep, ev)
    print("SELFTEST %s" % ("PASSED: the baseline is clean and every corruption is reported" if ok else "FAILED"))
    return 0 if ok else 1


if __name__ == "__main__":
    sys.exit(main())
