"""C14  Expiration is never early, always eventual, and visible as a delete everywhere.

Specification: spec/Expire.tla - objects and hooks/channels with deadlines (intervals of clock
readings), the expiry index as separate state maintained as collection.go setFill/Delete and
hooks.go do, the periodic sweeper of expire.go, the log; invariants NeverEarly, Bounded,
NoStaleTimer, ExpiryIsLoggedDel, TTLReports; ten named broken variants (Dev) that TLC refutes.
spec/ExpireGen.tla / ExpireSim.tla print command programs (breadth-first: one shortest program per
sweep at which a retired index entry would have fired against a live successor, per expiring sweep,
and per EXPIRE / PERSIST that reaches an object past its deadline but not yet swept; simulation:
long random programs), each closed by a probe with what the specification says is served then.  spec/ExpireTrace.tla validates recorded runs.

Binding: `t38conf expire-run` executes every program in real time (100 ms per tick, sweeper at an
arbitrary phase) on a fresh real server while pollers issue GET/TTL/EXISTS/FGET/SCAN/WITHIN/
INTERSECTS/NEARBY/KEYS/STATS/HOOKS/CHANS, a subscriber collects fence notifications and, in part of
the runs, a real follower is attached and polled.  Events are recorded in server-lock order with the
server's own clock (hooks cmd.done, expire.del, expire.delhook); at the end the log is read back, a
server is restarted from a copy of it, the follower is sampled.
  code -> model: TLC (ExpireTrace) judges every recorded reply, every sweep, the log, the restarted
                 server, the follower and the `del` notifications against the specification;
  model -> code: the probe of every program whose outcome the specification says is determined is
                 compared with TLC's expectation.
A stall of the harness or the server (its own 5 ms ticker, round trips of the polls) never becomes a
verdict: the run is repeated, and a repeated stall is INFRA.

Program families: the breadth-first covers (two collections with one object each incl. RENAME; one
collection with two objects, four commands; hooks and channels), random programs (TTL 0-4 s), bursts
(12 collections expiring in one sweep: the delay must not grow with the number of collections) and
limbo programs (the cover of EXPIRE / PERSIST of objects whose deadline has just passed plus random
programs around short deadlines, each with a follower: the situation in which a follower that expires on its own clock loses an object for good - found by this
check on the pinned tree and repaired by the `fix:` commit "a follower does not expire objects and
hooks on its own clock").
"""
import json
import os
import random
import threading
import time

from . import common
from .common import cfg_consts, tla_set

MODS = ["Expire.tla", "ExpireGen.tla", "ExpireSim.tla", "ExpireTrace.tla"]
UNIT_MS = 100                      # real time per tick of the design machine
P_US, SLACK_US, LAG_US, FRESH_US = 200000, 600000, 1000000, 2000000
STALL_LIMIT_MS = 300               # stall evidence above this explains a lateness (never a verdict)
PAR = str(max(4, min(common.NCPU - 2, 12)))

DEVS = {   # broken variant -> the observable invariant it must violate (NoStaleTimer is violated by every index variant as well)
    "KeepIdxOnOverwrite": "NeverEarly", "KeepIdxOnDelete": "NeverEarly", "ExpireKeepsOldEntry": "NeverEarly",
    "RenameKeepsTargetIdx": "NeverEarly", "KeepHookIdxOnReplace": "NeverEarly", "SweepEarly": "NeverEarly",
    "RenameLeavesIdxUnderOldKey": "Bounded", "SweepStoredClock": "Bounded",
    "ExpiryNotLogged": "ExpiryIsLoggedDel", "HookExpiryNotLogged": "ExpiryIsLoggedDel",
}
ACTIONS = ["ASet", "AExpire", "APersist", "AFset", "AJset", "ADel", "ARename", "ASetHook", "ADelHook", "Tick", "Sweep"]
INVS = "TypeOK NeverEarly Bounded NoStaleTimer ExpiryIsLoggedDel TTLReports"


def mc(name, base, keys, ids, hooks, chans, ttls):
    return """---- MODULE MC_%s ----
EXTENDS %s
MCKeys == %s
MCIds == %s
MCHooks == %s
MCChans == %s
MCTTLs == {%s}
====
""" % (name, base, tla_set(keys), tla_set(ids), tla_set(hooks), tla_set(chans), ", ".join(str(t) for t in ttls))


def consts(**kw):
    base = dict(Keys="<- MCKeys", Ids="<- MCIds", HookNames="<- MCHooks", ChanNames="<- MCChans", TTLs="<- MCTTLs",
                P=2, Slack=0, Sec=10, Dev="none", MaxNow=6, MaxOps=3)
    base.update(kw)
    return cfg_consts(**base)


# ------------------------------------------------------------------------------- TLC on the design
def design(ctx, out):
    """The intended design satisfies the property (every action taken)."""
    try:
        keys, ids = ["k1", "k2"], ctx.pick(["a"], ["a", "b"])
        r = ctx.tlc("design", MODS[:1], mc("design", "Expire", keys, ids, ["h1"], ["c1"], [1, 3]),
                    "SPECIFICATION Spec\n" + consts(MaxNow=ctx.pick(4, 6)) + "VIEW View\nINVARIANT " + INVS + "\nPROPERTY SweepAppendsDels\n",
                    workers=ctx.pick(4, 6), timeout=1500, extra=["-coverage", "1"])
        if not r["ok"]:
            raise common.Infra("the intended Expire design violates %s (specification error): %s" % (r["violated"], r["out"]))
        cov = {}
        for line in open(r["out"], errors="replace"):
            for a in ACTIONS:
                if line.startswith("<%s line" % a) and ">: " in line:
                    cov[a] = max(cov.get(a, 0), int(line.rsplit(">: ", 1)[1].split(":")[-1]))     # distinct:generated
        dead = [a for a in ACTIONS if not cov.get(a)]
        if dead:
            raise common.Infra("design model: actions never taken (vacuous): %s" % dead)
        out["design"] = r
        out["coverage"] = cov
    except BaseException as e:      # re-raised by the main thread
        out["error"] = e


def variants(ctx, out):
    """Every named broken variant is refuted by the observable invariant it must break."""
    try:
        refuted = {}
        for dev, inv in DEVS.items():
            v = ctx.tlc("dev_" + dev, MODS[:1], mc("dev_" + dev, "Expire", ["k1", "k2"], ["a"], ["h1"], ["c1"], [1, 3]),
                        "SPECIFICATION Spec\n" + consts(Dev=dev) + "VIEW View\nINVARIANT " + inv + "\n",
                        workers=2, timeout=600, expect_violation=True)
            if v["violated"] != inv:
                raise common.Infra("broken variant %s is not refuted by %s (TLC: %s)" % (dev, inv, v["violated"]))
            refuted[dev] = inv
        out["refuted"] = refuted
    except BaseException as e:
        out["verror"] = e


# ------------------------------------------------------------------------------- programs
def shape(p):
    return p["tag"] + ":" + ",".join(s["op"] + ("+ex" if s.get("ttl", -1) >= 0 else "") for s in p["h"] if s["op"] != "probe")


def read_programs(path):
    return [json.loads(l) for l in open(path) if l.strip()]


def generate(ctx):
    """Breadth-first transition covers: two collections with one object each (incl. RENAME); one collection with two
    objects (four commands); hooks and channels.  The three TLC runs go side by side."""
    allops = ["set", "expire", "persist", "fset", "jset", "del", "rename", "sethook", "delhook"]
    cfgs = [("gen_obj", ["k1", "k2"], ctx.pick(["a"], ["a", "b"]), [], [], ctx.pick([1, 20], [1, 3, 20]), 3, ctx.pick(4, 5), allops),
            ("gen_two", ["k1"], ["a", "b"], [], [], [1, 20], 4, ctx.pick(3, 4), ctx.pick(["set", "expire", "persist", "del"], allops)),
            ("gen_hook", ["k1"], ["a"], ["h1"], ["c1"], [1, 3, 20], ctx.pick(2, 3), 5, allops)]
    covers = [None] * len(cfgs)
    stats = {"states": 0, "transitions": 0}
    errors = []

    def one(n):
        try:
            name, keys, ids, hooks, chans, ttls, maxops, maxnow, ops = cfgs[n]
            r = ctx.tlc(name, MODS[:2], mc(name, "ExpireGen", keys, ids, hooks, chans, ttls).replace("====", "MCOps == %s\n====" % tla_set(ops)),
                        "SPECIFICATION GenSpec\n" + consts(MaxNow=maxnow, MaxOps=maxops, MarginP=3, MarginA=10, Horizon=12, GenOps="<- MCOps") +
                        "VIEW GenView\nINVARIANT NeverEarly Bounded NoStaleTimer ExpiryIsLoggedDel\nPROPERTY Emit\n",
                        workers=1, timeout=2400)
            if not r["ok"]:
                raise common.Infra("ExpireGen violates %s: %s" % (r["violated"], r["out"]))
            dest = os.path.join(r["dir"], "programs.ndjson")
            n_emitted = ctx.extract_tr(r["out"], dest)
            os.remove(r["out"])
            progs = read_programs(dest)
            ctx.log("TLC %s: %d distinct states, %d programs (%d stale-timer probes, %d expiring sweeps) in %.0fs" % (
                name, r["distinct"], n_emitted, sum(p["tag"] == "stale" for p in progs), sum(p["tag"] == "expiry" for p in progs), r["wall_s"]))
            if not n_emitted or not any(p["tag"] == "stale" for p in progs):
                raise common.Infra("generator %s emitted no stale-timer probe" % name)
            covers[n] = (progs, r)
        except BaseException as e:
            errors.append(e)

    ts = [threading.Thread(target=one, args=(n,)) for n in range(len(cfgs))]
    for t in ts:
        t.start()
    for t in ts:
        t.join()
    if errors:
        raise errors[0]
    for progs, r in covers:
        stats["states"] += r["distinct"]
        stats["transitions"] += r["generated"]
    return [c[0] for c in covers], stats


SIM_TTLS = [0, 1, 2, 3, 5, 8, 12, 15, 25, 40]
KEYS12 = ["k%d" % n for n in range(1, 13)]
W_MIX = [22, 32, 46, 54, 60, 66, 76, 84, 92, 95]       # set+EX, set, expire, persist, fset, jset, del, rename, sethook+EX, sethook | delhook
W_BURST = [80, 82, 92, 93, 94, 95, 98, 98, 99, 99]     # nearly all SET EX / EXPIRE with one TTL
W_LIMBO = [35, 38, 63, 88, 90, 92, 96, 96, 98, 99]     # short TTLs, then EXPIRE / PERSIST around the deadline


def simulate(ctx, name, num, maxops, maxnow, keys=("k1", "k2"), ids=("a", "b"), ttls=SIM_TTLS, tickpct=55, weights=W_MIX,
             margins=(3, 10, 12)):
    text = mc(name, "ExpireSim", list(keys), list(ids), ["h1"], ["c1"], ttls).replace(
        "====", "MCW == <<%s>>\n====" % ", ".join(str(w) for w in weights))
    r = ctx.tlc(name, MODS[:3], text,
                "SPECIFICATION SimSpec\n" + consts(MaxNow=maxnow, MaxOps=maxops, MarginP=margins[0], MarginA=margins[1], Horizon=margins[2], TickPct=tickpct,
                                                  W="<- MCW", GenOps="raw:{}") +
                "INVARIANT NeverEarly Bounded NoStaleTimer ExpiryIsLoggedDel TTLReports\n",
                workers=1, simulate=num, depth=400, timeout=900)
    if not r["ok"]:
        raise common.Infra("ExpireSim violates %s: %s" % (r["violated"], r["out"]))
    dest = os.path.join(r["dir"], "programs.ndjson")
    n = ctx.extract_tr(r["out"], dest)
    if n != num:
        raise common.Infra("ExpireSim emitted %d programs instead of %d" % (n, num))
    return read_programs(dest), r


def pick_cover(progs, want, rng, tags=("stale", "expiry")):
    """A seeded sample of the cover: stale-timer probes first, every shape of program represented."""
    by = {}
    for p in progs:
        if p["tag"] in tags:
            by.setdefault(shape(p), []).append(p)
    shapes = sorted(by)
    rng.shuffle(shapes)
    shapes.sort(key=lambda s: 0 if s.startswith("stale") else 1)
    out = []
    while len(out) < want and shapes:
        for s in list(shapes):
            if len(out) >= want:
                break
            lst = by[s]
            out.append(lst.pop(rng.randrange(len(lst))))
            if not lst:
                shapes.remove(s)
    return out, len(by)


def dress(progs, rng, follower_pct, restart_pct, sc0=0):
    """Driver options: scenario number, phase against the sweeper, follower, restart."""
    for n, p in enumerate(progs):
        p["sc"] = sc0 + n
        p["jitter"] = rng.randrange(200)
        p["restart"] = rng.randrange(100) < restart_pct
        p["attach"] = -1
        last = p["h"][-1]["at"]
        if rng.randrange(100) < follower_pct:
            ends = [s["at"] + s["ttl"] for s in p["h"] if s["op"] in ("set", "expire") and s.get("ttl", -1) >= 8 and s["at"] + s["ttl"] <= last - 4]
            if ends and rng.randrange(3) > 0:
                p["attach"] = max(0, rng.choice(ends) - rng.choice([2, 3, 4]))     # shortly before a long deadline
            else:
                p["attach"] = rng.randrange(0, max(1, last - 3))
    return progs


def with_hold(progs, sc0):
    """Limbo programs again, with a reader holding the server lock across the deadline: the EXPIRE / PERSIST / SET that reaches
    the object past its deadline queues behind the reader together with the sweeper, and whichever gets the lock first when
    the reader ends decides the run.  (An implementation that decides what to expire in one critical section and deletes it
    in another is exposed only by such contention.)"""
    out = []
    for p in progs:
        dl = {}            # (k, i) -> tick of the pending deadline
        hold = None
        for s in p["h"]:
            if s["op"] == "probe":
                break
            ki = (s.get("k"), s.get("i"))
            if s["op"] in ("expire", "persist", "set") and ki in dl and dl[ki] <= s["at"] <= dl[ki] + 2 and dl[ki] >= 2:
                hold = {"at": dl[ki] - 1, "ticks": (s["at"] - dl[ki]) + 5}
                break
            if s["op"] in ("set", "expire") and s.get("ttl", -1) >= 0:
                dl[ki] = s["at"] + s["ttl"]
            elif s["op"] in ("set", "persist", "del", "jset", "rename"):
                dl.pop(ki, None)
        if hold:
            q = json.loads(json.dumps(p))
            q["hold"] = hold
            q["tag"] = "hold"
            q["racy"] = True          # the probe is not comparable: every later step is delayed by the reader
            q["sc"] = sc0 + len(out)
            q["attach"] = -1
            q["restart"] = False
            out.append(q)
    return out


# ------------------------------------------------------------------------------- execution and judgement
def execute(ctx, progs, label, par=PAR, spin=False):
    src = os.path.join(ctx.scratch, "progs_%s.ndjson" % label)
    with open(src, "w") as f:
        for p in progs:
            f.write(json.dumps(p) + "\n")
    trace = os.path.join(ctx.scratch, "trace_%s.ndjson" % label)
    rc, js, err = ctx.harness(["expire-run", "-in", src, "-out", trace, "-par", str(par), "-unit", str(UNIT_MS),
                               "-dir", os.path.join(ctx.scratch, "srv_" + label)] + (["-spinlock"] if spin else []), timeout=3000)
    runs = {r["sc"]: r for r in js["runs"]}
    if len(runs) != len(progs):
        raise common.Infra("expire-run %s: %d of %d programs ran" % (label, len(runs), len(progs)))
    jumps = [r["sc"] for r in runs.values() if r["clockjump_us"] > 2000]
    if jumps:
        raise common.Infra("the wall clock was stepped during runs %s: deadlines and stamps are not on one time base" % jumps[:5])
    return trace, runs


def split_trace(trace):
    """scenario -> its lines."""
    by, cur = {}, None
    for line in open(trace):
        if not line.strip():
            continue
        if line.startswith('{"e":"reset"'):
            cur = json.loads(line)["sc"]
            by[cur] = []
        by[cur].append(line)
    return by


def judge(ctx, by_sc, label, chunks=3, wide=()):
    """TLC (ExpireTrace) on the recorded scenarios. Returns (rejections, summed counters).
    `wide`: scenarios over the twelve-key universe (judged apart: the constants of a TLC run are its key set)."""
    scs = sorted(sc for sc in by_sc if sc not in wide)
    wides = sorted(sc for sc in by_sc if sc in wide)
    if not scs and not wides:
        raise common.Infra("nothing to judge (%s)" % label)
    chunks = max(1, min(chunks, len(scs))) if scs else 0
    parts = [scs[i::chunks] for i in range(chunks)] + ([wides] if wides else [])
    chunks = len(parts)
    results = [None] * chunks
    errors = []

    def one(i):
        try:
            d = os.path.join(ctx.scratch, "tr_%s_%d" % (label, i))
            os.makedirs(d, exist_ok=True)
            path = os.path.join(d, "trace.ndjson")
            with open(path, "w") as f:
                for sc in parts[i]:
                    f.writelines(by_sc[sc])
            name = "trace_%s_%d" % (label, i)
            keys, ids = (KEYS12, ["a"]) if parts[i] is wides else (KEYS12[:2], ["a", "b"])
            r = ctx.tlc(name, [MODS[0], MODS[3]], mc(name, "ExpireTrace", keys, ids, ["h1"], ["c1"], []),
                        "SPECIFICATION TraceSpec\n" + consts(P=P_US, Slack=SLACK_US, Sec=1000000, MaxNow=0, MaxOps=0, Lag=LAG_US, Fresh=FRESH_US) +
                        "INVARIANT ModelOK\nPOSTCONDITION Consumed\n", workers=1, timeout=1800, files=[path])
            if not r["ok"]:
                raise common.Infra("ExpireTrace: %s violated on %s (specification error): %s" % (r["violated"], name, r["out"]))
            rej = os.path.join(d, "rej.ndjson")
            ctx.extract_tr(r["out"], rej, tag="REJ")
            summ = os.path.join(d, "sum.ndjson")
            if ctx.extract_tr(r["out"], summ, tag="SUM") != 1:
                raise common.Infra("ExpireTrace did not consume %s to the end: %s" % (name, r["out"]))
            results[i] = ([json.loads(l) for l in open(rej)], json.loads(open(summ).read())["cnt"])
        except BaseException as e:
            errors.append(e)

    ts = [threading.Thread(target=one, args=(i,)) for i in range(chunks)]
    for t in ts:
        t.start()
    for t in ts:
        t.join()
    if errors:
        raise errors[0]
    rejs, cnt = [], {}
    for rj, c in results:
        rejs += rj
        for k, v in c.items():
            cnt[k] = cnt.get(k, 0) + v
    return rejs, cnt


TIMING_WHY = {"Bounded", "follower-serves-expired", "ExpiryIsLoggedDel-follower", "ExpiryIsLoggedDel-restart"}


def stalled(run):
    # (a restarted server restarts every TTL: sampling it must take well under the 2 s the specification allows)
    return max(run["stall_ms"], run["max_rtt_ms"]) > STALL_LIMIT_MS or run.get("restart_ms", 0) > 1200


def describe(rej, prog):
    e = rej["e"]
    ev = {k: e[k] for k in e if k not in ("aof", "restart", "follower", "dels", "sc", "src", "n")} if e.get("e") != "end" else \
        {k: e[k] for k in ("t", "aof", "restart", "follower", "dels") if k in e}
    steps = "; ".join("%s@%d %s" % (s["op"], s["at"], " ".join(str(s[x]) for x in ("k", "i", "k2", "nm") if s.get(x)) +
                                    (" EX %.2f" % (s["ttl"] * prog.get("unit", UNIT_MS) / 1000.0) if s.get("ttl", -1) >= 0 else ""))
                      for s in prog["h"] if s["op"] != "probe")
    return "%s rejected by the specification (ExpireTrace): program [%s]%s; offending event %s; the specification has %s" % (
        "+".join(sorted(rej["why"])), steps, " with a follower attached at tick %d" % prog["attach"] if prog.get("attach", -1) >= 0 else "",
        json.dumps(ev, sort_keys=True)[:700], json.dumps(rej["exp"], sort_keys=True)[:500])


def run_and_judge(ctx, progs, label, report=True, retries=2, spin=False):
    """Execute programs, let TLC judge the traces, compare the probes. Returns stats."""
    by_prog = {p["sc"]: p for p in progs}
    t0 = time.time()
    trace, runs = execute(ctx, progs, label, spin=spin)
    t1 = time.time()
    by_sc = split_trace(trace)
    wide = {p["sc"] for p in progs if any(s.get(x) in KEYS12[2:] for s in p["h"] for x in ("k", "k2"))}
    rejs, cnt = judge(ctx, by_sc, label, wide=wide)
    ctx.log("%s: %d programs executed in %.0fs (%d trace lines), judged by TLC in %.0fs" % (
        label, len(progs), t1 - t0, sum(len(v) for v in by_sc.values()), time.time() - t1))
    verdicts = []          # (sc, kind, text, rej)
    redo = []
    for rj in rejs:
        sc = rj["sc"]
        if by_prog[sc].get("hold") and set(rj["why"]) <= TIMING_WHY:
            continue       # the sweeper cannot run while a reader holds the lock: lateness is not judged in these programs
        if set(rj["why"]) <= TIMING_WHY and stalled(runs[sc]):
            redo.append(sc)
        else:
            verdicts.append((sc, "+".join(sorted(rj["why"])), describe(rj, by_prog[sc]), rj))
    for r in runs.values():
        for m in r["probe_mismatches"]:
            verdicts.append((r["sc"], "probe", "model -> code: %s; program %s" % (m, shape(by_prog[r["sc"]])), {"probe": m}))
    nstalled = 0
    if redo:
        # a lateness that coincides with a measured stall is not a verdict: run those programs again, few at a time
        ctx.log("%s: %d runs rejected only for lateness while the harness measured a stall > %d ms: repeated" % (label, len(redo), STALL_LIMIT_MS))
        again = [dict(by_prog[sc]) for sc in sorted(set(redo))]
        for attempt in range(retries):
            t2, runs2 = execute(ctx, again, "%s_redo%d" % (label, attempt), par=2)
            rej2, cnt2 = judge(ctx, split_trace(t2), "%s_redo%d" % (label, attempt), chunks=1, wide=wide)
            still = []
            for rj in rej2:
                sc = rj["sc"]
                if set(rj["why"]) <= TIMING_WHY and stalled(runs2[sc]):
                    still.append(sc)
                else:
                    verdicts.append((sc, "+".join(sorted(rj["why"])), describe(rj, by_prog[sc]), rj))
            again = [dict(by_prog[sc]) for sc in sorted(set(still))]
            if not again:
                break
        nstalled = len(again)
        if again:
            raise common.Infra("%d runs were late only while the machine stalled (> %d ms), also when repeated: too slow to decide Bounded" % (
                len(again), STALL_LIMIT_MS))
    if report:
        seen = set()
        for sc, kind, text, rj in verdicts:
            if (sc, kind) in seen:
                continue
            seen.add((sc, kind))
            common.report(ctx, "c14-%s-%s-sc%d" % (label, kind.replace("ExpiryIsLoggedDel-", "logged-"), sc), text,
                          {"kind": "expire-program", "program": by_prog[sc], "why": kind, "detail": rj,
                           "trace": by_sc.get(sc, [])[:4000]})
    return {"runs": runs, "cnt": cnt, "verdicts": verdicts, "by_sc": by_sc, "trace": trace, "redone": len(set(redo)), "stalled": nstalled}


# ------------------------------------------------------------------------------- self-test of the binding
def mutants(by_sc, progs_by_sc, rng, per_kind):
    """Copies of accepted scenarios with ONE recorded field corrupted or one event dropped; each must be rejected."""
    out = []          # (kind, expected reason, lines)
    scs = sorted(by_sc)
    rng.shuffle(scs)
    made = {}

    def add(kind, why, lines):
        if made.get(kind, 0) < per_kind:
            made[kind] = made.get(kind, 0) + 1
            out.append((kind, why, lines))

    for sc in scs:
        evs = [json.loads(l) for l in by_sc[sc]]
        xd = [i for i, e in enumerate(evs) if e["e"] == "xdel" and e["upd"]]
        end = len(evs) - 1
        if evs[end]["e"] != "end":
            continue

        def variant(change):
            c = json.loads(json.dumps(evs))
            change(c)
            return [json.dumps(e) + "\n" for e in c]
        if xd:
            i = rng.choice(xd)
            add("sweep-before-deadline", "NeverEarly", variant(lambda c: c[i].update(clock=-5000000)))
            add("sweep-too-late", "Bounded", variant(lambda c: (c[i].update(clock=c[i]["clock"] + 6000000, t=c[i]["t"] + 6000000))))
            add("sweep-event-dropped", None, variant(lambda c: c.pop(i)))
            k, ident = evs[i]["k"], evs[i]["i"]

            def drop_log(c):
                a = c[end]["aof"]
                j = [n for n, r in enumerate(a) if r["op"] == "del" and r["k"] == k and r["i"] == ident]
                if j:
                    a.pop(j[-1])
            add("del-missing-from-log", "ExpiryIsLoggedDel-log", variant(drop_log))
            if evs[end]["hasr"] and not any(o["k"] == k and o["i"] == ident for o in evs[end]["restart"]["objs"]):
                add("restart-still-serves", "ExpiryIsLoggedDel-restart",
                    variant(lambda c: c[end]["restart"]["objs"].append({"k": k, "i": ident, "x": True})))
            if evs[end]["hasf"] and not any(o["k"] == k and o["i"] == ident for o in evs[end]["follower"]["objs"]):
                add("follower-still-serves", "ExpiryIsLoggedDel-follower",
                    variant(lambda c: c[end]["follower"]["objs"].append({"k": k, "i": ident, "x": True})))
        if any(d["ids"] for d in evs[end]["dels"]):
            def drop_note(c):
                for d in c[end]["dels"]:
                    if d["ids"]:
                        d["ids"].pop()
                        return
            add("del-notification-missing", "ExpiryIsLoggedDel-fence", variant(drop_note))
        tt = [i for i, e in enumerate(evs) if e["e"] == "cmd" and e["op"] == "ttl" and e["r"]["n"] >= 0]
        if tt:
            i = rng.choice(tt)
            add("ttl-reply-raised", "TTLReports", variant(lambda c: c[i]["r"].update(n=c[i]["r"]["n"] + 2)))
        gets = [i for i, e in enumerate(evs) if e["e"] == "cmd" and e["op"] == "get" and e["r"]["t"] == "obj"]
        if gets:
            i = rng.choice(gets)
            add("served-object-hidden", "read", variant(lambda c: c[i]["r"].update(t="nil")))
        hx = [i for i, e in enumerate(evs) if e["e"] == "xhook" and e["upd"]]
        if hx:
            i = rng.choice(hx)
            add("hook-expiry-dropped", None, variant(lambda c: c.pop(i)))
    return out


def selftest(ctx, accepted_by_sc, progs_by_sc, exec_sample):
    rng = random.Random(ctx.seed * 7919 + 14)
    muts = mutants(accepted_by_sc, progs_by_sc, rng, ctx.pick(3, 8))
    kinds = sorted({m[0] for m in muts})
    need = {"sweep-before-deadline", "sweep-too-late", "sweep-event-dropped", "del-missing-from-log", "ttl-reply-raised",
            "served-object-hidden", "restart-still-serves"}
    if not need <= set(kinds):
        raise common.Infra("self-test could not build the mutants %s" % sorted(need - set(kinds)))
    by = {}
    for n, (kind, why, lines) in enumerate(muts):
        sc = 900000 + n
        fixed = []
        for l in lines:
            e = json.loads(l)
            e["sc"] = sc
            fixed.append(json.dumps(e) + "\n")
        by[sc] = fixed
    rejs, cnt = judge(ctx, by, "selftest", chunks=2)
    got = {}
    for r in rejs:
        got.setdefault(r["sc"], set()).update(r["why"])
    missed = []
    for n, (kind, why, lines) in enumerate(muts):
        g = got.get(900000 + n, set())
        if not g or (why and why not in g):
            missed.append("%s (expected %s, got %s)" % (kind, why, sorted(g)))
    # model -> code: a flipped probe expectation must be noticed by the harness
    flipped = []
    for p in exec_sample:
        q = json.loads(json.dumps(p))
        sure = [e for e in q["h"][-1]["exp"] if e["v"] != "unsure"]
        if q.get("racy") or not sure:
            continue
        e = rng.choice(sure)
        e["v"] = "absent" if e["v"] == "present" else "present"
        q["attach"], q["restart"] = -1, False
        flipped.append(q)
        if len(flipped) >= ctx.pick(4, 10):
            break
    if len(flipped) < 2:
        raise common.Infra("self-test found no program with a determined probe")
    for n, q in enumerate(flipped):
        q["sc"] = 800000 + n
    trace, runs = execute(ctx, flipped, "selftest_probe")
    blind = [r["sc"] for r in runs.values() if not r["probe_void"] and not r["probe_mismatches"]]
    void = sum(1 for r in runs.values() if r["probe_void"])
    ctx.log("self-test: %d corrupted traces (%s), %d rejected as expected; %d flipped probe expectations, %d noticed, %d void" % (
        len(muts), ", ".join(kinds), len(muts) - len(missed), len(flipped), len(flipped) - len(blind) - void, void))
    if missed:
        raise common.Infra("trace validation is vacuous: corrupted traces were accepted: %s" % missed[:5])
    if blind or void == len(flipped):
        raise common.Infra("probe comparison is vacuous: flipped expectations were not noticed (%s, %d void)" % (blind[:5], void))
    return {"trace_mutants": len(muts), "mutant_kinds": kinds, "probe_mutants": len(flipped) - void}


# ------------------------------------------------------------------------------- tiers
def run(ctx):
    if ctx.replay:
        return run_replay(ctx)
    rng = random.Random(ctx.seed)
    dres = {}
    dthread = threading.Thread(target=design, args=(ctx, dres))
    vthread = threading.Thread(target=variants, args=(ctx, dres))
    dthread.start()
    vthread.start()
    try:
        covers, gstats = generate(ctx)
        cover_obj, nshapes_obj = pick_cover(covers[0], ctx.pick(60, 500), rng)
        cover_two, nshapes_two = pick_cover(covers[1], ctx.pick(50, 500), rng)
        cover_hook, nshapes_hook = pick_cover(covers[2], ctx.pick(30, 200), rng)
        sims, rsim = simulate(ctx, "sim", ctx.pick(80, 400), ctx.pick(10, 14), ctx.pick(24, 30))
        # bursts: many collections whose objects expire in the same sweep (one TTL, hardly any time between the commands)
        burst, _ = simulate(ctx, "burst", ctx.pick(10, 40), 24, 6, keys=KEYS12, ids=("a",), ttls=[5], tickpct=5, weights=W_BURST)
        # limbo: EXPIRE / PERSIST of objects whose deadline has just passed (served until swept), each with a follower from the
        # start: the cover of those transitions, and random programs around short deadlines
        limbo_cover, _ = pick_cover(covers[0] + covers[1], ctx.pick(40, 300), rng, tags=("limbo",))
        limbo, _ = simulate(ctx, "limbo", ctx.pick(20, 100), 12, 14, keys=("k1",), ids=("a", "b"), ttls=[1, 2, 15], tickpct=50, weights=W_LIMBO)
        limbo = limbo_cover + limbo
        cover = cover_obj + cover_two + cover_hook
        progs = list(dress(cover, rng, follower_pct=20, restart_pct=ctx.pick(50, 100)))
        progs += dress(sims, rng, follower_pct=40, restart_pct=ctx.pick(60, 100), sc0=len(progs))
        progs += dress(burst, rng, follower_pct=0, restart_pct=50, sc0=len(progs))
        progs += dress(limbo, rng, follower_pct=0, restart_pct=30, sc0=len(progs))
        for p in limbo:
            p["attach"] = 0
        held = with_hold(limbo, sc0=len(progs))
        progs += held
        rng.shuffle(progs)
        nshapes = nshapes_obj + nshapes_two + nshapes_hook
        ctx.log("programs: %d stale-timer / expiry programs of the cover (%d shapes), %d random, %d bursts, %d limbo, %d limbo under "
                "lock contention; %d with a follower" % (
            len(cover), nshapes, len(sims), len(burst), len(limbo), len(held), sum(p["attach"] >= 0 for p in progs)))
        if not held:
            raise common.Infra("no limbo program could be run under lock contention (vacuous)")
        res = run_and_judge(ctx, progs, "main")
        extra = []
        if not ctx.quick:
            # more random programs (fresh TLC seeds) while the budget lasts
            seed0, rnd = ctx.seed, 0
            try:
                while time.time() - ctx.t0 < 14 * 60 and rnd < 6:
                    rnd += 1
                    ctx.seed = seed0 * 1000 + rnd
                    more, _ = simulate(ctx, "sim%d" % rnd, 300, 14, 30)
                    more = dress(more, random.Random(ctx.seed), follower_pct=40, restart_pct=100, sc0=100000 * rnd)
                    # (mutex build only: the optional spinlock lets writers - the sweeper among them - wait for as long as readers
                    # overlap, and the pollers of this driver overlap all the time; with it "bounded delay" is not decidable here)
                    extra.append(run_and_judge(ctx, more, "more%d" % rnd))
                    progs += more
            finally:
                ctx.seed = seed0
    finally:
        dthread.join()
        vthread.join()
    for k in ("error", "verror"):
        if k in dres:
            raise dres[k]
    allres = [res] + extra
    cnt = {}
    for r in allres:
        for k, v in r["cnt"].items():
            cnt[k] = cnt.get(k, 0) + v
    runs = {}
    for r in allres:
        runs.update(r["runs"])
    rejected = {v[0] for r in allres for v in r["verdicts"]}
    ctx.log("judged by TLC: %d runs, %d writes, %d reads (of %d polls), %d TTL replies (%d with a deadline), %d expiries "
            "(+%d hooks), %d logs/%d restarts/%d followers compared, %d rejected" % (
                cnt["scen"], cnt["writes"], cnt["reads"], cnt["polls"], cnt["ttls"], cnt["ttlsdl"], cnt["xdels"], cnt["xhooks"],
                cnt["ends"], cnt["restarts"], cnt["followers"], cnt["rej"]))
    # vacuity
    probes = sum(r["probe_compared"] for r in runs.values() if not r["probe_void"])
    stale_probed = sum(1 for p in progs if p["tag"] == "stale" and not runs[p["sc"]]["probe_void"] and runs[p["sc"]]["probe_compared"])
    if min(cnt["writes"], cnt["reads"], cnt["ttlsdl"], cnt["xdels"], cnt["xhooks"], cnt["ends"], cnt["restarts"], cnt["followers"],
           cnt["freads"], cnt["notes"], cnt["htt"]) == 0 and not ctx.violations:
        raise common.Infra("a part of the property was never judged (vacuous): %s" % cnt)
    if (probes == 0 or stale_probed == 0) and not ctx.violations:
        raise common.Infra("no probe of a stale-timer program was compared (vacuous): %d probes" % probes)
    void = sum(1 for r in runs.values() if r["probe_void"] and not next(p for p in progs if p["sc"] == r["sc"]).get("racy"))
    if void > len(runs) // 3:
        raise common.Infra("%d of %d runs were too late / stalled for their probe: the machine is too slow to replay programs" % (void, len(runs)))
    if cnt["latefol"] == 0 and not ctx.violations:
        raise common.Infra("no follower lost an object before its own timer could fire: the log-borne DEL was never witnessed")
    # self-test of the binding on accepted runs
    wide = {p["sc"] for p in progs if any(s.get(x) in KEYS12[2:] for s in p["h"] for x in ("k", "k2"))}
    accepted = {sc: lines for sc, lines in res["by_sc"].items() if sc not in rejected and sc not in wide}
    st = selftest(ctx, accepted, {p["sc"]: p for p in progs}, [p for p in progs if p["sc"] in accepted and p["tag"] == "stale"])
    d = dres["design"]
    lateness = sorted(r["stall_ms"] for r in runs.values())
    sample_sc = next(iter(sorted(accepted)), None)
    common.write_evidence(ctx, "model_checking", {
        "states": d["distinct"] + gstats["states"],
        "transitions": d["generated"] + gstats["transitions"],
        "traces_validated_against_impl": cnt["scen"] - len(rejected),
        "samples": [json.dumps(next(p for p in progs if p["sc"] == sample_sc))[:1500]] +
                   [l.strip()[:400] for l in accepted.get(sample_sc, [])[:6]],
        "design_actions_taken": dres["coverage"],
        "broken_variants_refuted": dres["refuted"],
        "programs_run": len(runs),
        "programs_by_tag": {t: sum(1 for p in progs if p["tag"] == t) for t in ("stale", "expiry", "limbo", "sim", "hold")},
        "cover_shapes": nshapes,
        "polls_issued": sum(r["polls"] for r in runs.values()),
        "trace_events_judged": {k: cnt[k] for k in ("writes", "reads", "ttls", "ttlsdl", "htt", "xdels", "xhooks", "freads", "ends",
                                                    "restarts", "followers", "dels", "notes", "latefol", "noop", "rej")},
        "probe_comparisons_model_to_code": probes,
        "stale_timer_programs_probed": stale_probed,
        "probe_void_runs": sum(1 for r in runs.values() if r["probe_void"]),
        "runs_repeated_for_stall": sum(r["redone"] for r in allres),
        "harness_stall_ms_p50_max": [lateness[len(lateness) // 2], lateness[-1]],
        "selftest": st,
        "exhaustive": False,
        "explanation": "TLC checked the design machine exhaustively (small constants) and refuted every named broken variant; it generated "
                       "the programs (breadth-first cover of stale-timer probes and expiring sweeps, random programs); every program ran in "
                       "real time on a real server under pollers; TLC judged every recorded event, the log, a restarted server, a follower "
                       "and the fence notifications (ExpireTrace), and the harness compared every determined probe with TLC's expectation.",
    }, [
        "deadlines are intervals [clock at the start of the command + EX, clock at its end + EX] on the server's own wall clock read "
        "under the server lock by the verif hooks; 1-2 microseconds of rounding are added on the safe side",
        "Bounded is judged with the coded sweep period (200 ms: loopUntilServerStops sleeps 1/5 s although expire.go says 1/10 s) plus "
        "0.6 s slack (the probes of the programs come 1 s after the deadlines); a lateness that coincides with a measured stall > 300 ms is repeated and then INFRA, never a verdict",
        "a follower applies commands later than the leader and runs its own sweeper: it must serve nothing later than 1 s after the "
        "leader removed it and everything whose deadline has not passed; a restarted server restarts every TTL (EX is logged verbatim)",
        "polls are compacted before TLC sees them: of a run of identical replies of one poller to one command between two "
        "state-changing events the last one is kept (TTL: first and last)",
        "only `del` notifications of channels are compared (webhook delivery belongs to C10); objects are points (JSET makes strings)",
    ])


def run_replay(ctx):
    p = json.load(open(ctx.replay))
    prog = p["program"]
    progs = []
    for n in range(6):
        q = json.loads(json.dumps(prog))
        q["sc"] = n
        q["jitter"] = (prog.get("jitter", 0) + 37 * n) % 200
        progs.append(q)
    res = run_and_judge(ctx, progs, "replay")
    if res["cnt"].get("scen", 0) == 0:
        raise common.Infra("replay judged nothing")
