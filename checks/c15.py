"""C15  Follower, read-only, password and protected-mode gates hold for every command.

Specification: spec/Gates.tla -- operator Gate: for every (server mode, connection state,
command instance, wrapper) the set of allowed reply classes, "dataset unchanged", "no object
data disclosed", "may be authenticated afterwards"; a one-server/one-connection machine on
which TLC checks the statement (Stmt... action properties) against Gate for every cell and
every outcome Gate allows.  spec/GatesGen.tla makes the machine deterministic and emits one
behaviour per cell of the matrix (breadth-first) or random multi-command connections
(simulation).

Binding (model -> code): harness/gates.  The command list comes from the CURRENT source
(switch in Server.command, handleInputCommand/netServe name tests, script dispatch tables,
core/commands.json); every name needs an argument template (missing one = INFRA "no
template").  What a command does -- modifies data, is served, discloses object data -- is
MEASURED on a real leader for every (instance, wrapper) and fed to TLC as constants.  TLC
emits the matrix with the expectations; the harness executes every behaviour against real
servers (leader, follower of a stalling fake leader, follower of a real leader, READONLY,
requirepass, protected mode with a loopback and a 192.0.2.2 peer) and compares reply class,
dataset projection + aof_size before/after, disclosure of fixture markers, and the
authentication state of the connection (probe) with TLC's values.
"""
import json
import os

from . import common
from .common import cfg_consts

WRAPPERS_ALL = ["plain", "timeout", "eval", "evalro", "evalna", "json", "native", "http", "httpauth", "httpbad"]


def q(s):
    return '"%s"' % s.replace("\\", "\\\\").replace('"', '\\"')


def mc_module(name, base, meas, only=None):
    insts = [i for i in meas["instances"] if only is None or i["id"] in only]
    ids = set(i["id"] for i in insts)
    cells = [c for c in meas["cells"] if c["i"] in ids]

    def pairs(pred):
        return "{" + ", ".join("<<%s, %s>>" % (q(c["i"]), q(c["w"])) for c in cells if pred(c)) + "}"

    def fn(key):
        return "(" + " @@ ".join("%s :> %s" % (q(i["id"]), q(i[key])) for i in insts) + ")"

    return """---- MODULE MC_%s ----
EXTENDS %s
MCInstSeq == <<%s>>
MCBase == %s
MCAuthKind == %s
MCWrapperSeq == <<%s>>
MCCannot == {%s}
MCDetaches == {%s}
MCMutL == %s
MCOkL == %s
MCDataL == %s
MCNone == {}
====
""" % (name, base,
       ", ".join(q(i["id"]) for i in insts), fn("base"), fn("auth"),
       ", ".join(q(w) for w in meas["wrappers"]),
       ", ".join("<<%s, %s>>" % (q(a), q(b)) for a, b in (meas.get("skipped") or []) if a in ids),
       ", ".join(q(i["id"]) for i in insts if i.get("live")),
       pairs(lambda c: c["mut"]), pairs(lambda c: c["cls"] == "ok"), pairs(lambda c: c["data"]))


SUBST = dict(InstSeq="<-MCInstSeq", Base="<-MCBase", AuthKind="<-MCAuthKind", WrapperSeq="<-MCWrapperSeq",
             Cannot="<-MCCannot", Detaches="<-MCDetaches", MutL="<-MCMutL", OkL="<-MCOkL", DataL="<-MCDataL")

STMT = ("StmtFollowerReadOnly StmtNeverCaughtUp StmtUnauthenticated StmtWrongPassword StmtProtected "
        "RefusedStaysRefused TypeOKStep")


DEV_NONE = dict(DevUngatedWrites="<-MCNone", DevUngatedReads="<-MCNone")


def design(ctx, name, meas, servers, nl, maxcmds, timeout=900, only=None):
    """TLC on the design: every outcome Gate allows, for every cell, satisfies the statement."""
    cfg = ("SPECIFICATION Spec\nVIEW View\n" +
           cfg_consts(ServerSet=servers, NlEverywhere=nl, MaxCmds=maxcmds, **SUBST, **DEV_NONE) +
           "INVARIANT TypeOK AuthdOnlyByRightPassword\nPROPERTY " + STMT + "\n")
    r = ctx.tlc(name, ["Gates.tla"], mc_module(name, "Gates, TLC", meas, only), cfg, timeout=timeout)
    if not r["ok"]:
        raise common.Infra("the specification Gates contradicts itself: Gate allows an outcome that violates %s "
                           "(see %s)" % (r["violated"], r["out"]))
    ctx.log("TLC %s (design, servers=%s): %d distinct states, %d transitions (cell x allowed outcome), statement holds"
            % (name, servers, r["distinct"], r["generated"]))
    return r


def as_coded(ctx, name, meas, dev, expect):
    """With a named deviation switched on (a command that the gate forgets, DESIGN.md section 5: D1, D16) the
    design must violate the statement: TLC has to find the counterexample.  This also shows that the Stmt...
    properties are able to fail.  (Run on the instances of that command plus GET/SET/AUTH only.)"""
    consts = dict(DEV_NONE)
    consts[dev] = "<-MCDev"
    cfg = ("SPECIFICATION Spec\nVIEW View\n" +
           cfg_consts(ServerSet="statement", NlEverywhere=False, MaxCmds=1, **SUBST, **consts) +
           "PROPERTY " + STMT + "\n")
    only = set(i["id"] for i in meas["instances"] if i["base"] in (expect[0], "get", "set", "auth"))
    mc = mc_module(name, "Gates, TLC", meas, only).replace("MCNone == {}", "MCNone == {}\nMCDev == {%s}" % q(expect[0]))
    r = ctx.tlc(name, ["Gates.tla"], mc, cfg, timeout=600, expect_violation=True)
    if r["violated"] != expect[1]:
        raise common.Infra("deviation %s=%s: TLC was expected to refute %s, got %s (see %s)"
                           % (dev, expect[0], expect[1], r["violated"], r["out"]))
    ctx.log("TLC %s (design with the named deviation %s={%s}): %s is violated, as expected"
            % (name, dev, expect[0], expect[1]))
    return r


def matrix(ctx, name, meas, servers, nl, timeout=900, only=None):
    cfg = ("SPECIFICATION GSpec\nVIEW GView\n" +
           cfg_consts(ServerSet=servers, NlEverywhere=nl, MaxCmds=1, **SUBST, **DEV_NONE) + "PROPERTY Emit\n")
    r = ctx.tlc(name, ["Gates.tla", "GatesGen.tla"], mc_module(name, "GatesGen", meas, only), cfg, timeout=timeout)
    if not r["ok"]:
        raise common.Infra("GatesGen violates %s: see %s" % (r["violated"], r["out"]))
    beh = r["dir"] + "/behaviours.ndjson"
    n = ctx.extract_tr(r["out"], beh)
    ctx.log("TLC %s (matrix, servers=%s): %d (mode, connection) states, %d cells emitted as behaviours"
            % (name, servers, r["distinct"], n))
    return r, beh, n


def sim(ctx, name, meas, servers, num, maxcmds, timeout=900):
    cfg = ("SPECIFICATION SimSpec\n" + cfg_consts(ServerSet=servers, NlEverywhere=True, MaxCmds=maxcmds, **SUBST, **DEV_NONE))
    workers = 8
    r = ctx.tlc(name, ["Gates.tla", "GatesGen.tla"], mc_module(name, "GatesGen", meas), cfg, workers=workers,
                simulate=max(1, num // workers), depth=4 * maxcmds + 20, timeout=timeout)
    if not r["ok"]:
        raise common.Infra("GatesGen (simulation) violates %s: see %s" % (r["violated"], r["out"]))
    beh = r["dir"] + "/behaviours.ndjson"
    n = ctx.extract_tr(r["out"], beh)
    ctx.log("TLC %s (simulate): %d random connections of up to %d commands" % (name, n, maxcmds))
    return r, beh, n


def execute(ctx, beh, label, spin=False, report=True):
    rc, js, err = ctx.harness(["gates-run", "-repo", common.REPO, "-in", beh, "-dir", ctx.scratch] +
                              (["-spinlock"] if spin else []), timeout=3000)
    if js.get("capped"):
        raise common.Infra("run %s stopped after %d mismatches: coverage incomplete" % (label, len(js.get("mismatches") or [])))
    st = js["stats"]
    mism = js.get("mismatches") or []
    ctx.log("run %s: %d behaviours, %d command cells (%d constrained by the property), %d comparisons, %d probes, "
            "%d env builds, %d mismatches" % (label, st["behaviours"], st["cells"], st["constrained"], st["checks"],
                                             st["probes"], st["env_builds"], len(mism)))
    if js.get("desync"):
        raise common.Infra("model and real connection state diverged (AUTH with the right password did not "
                           "authenticate?): %s" % js["desync"][:3])
    if report:
        for m in mism:
            common.report(ctx, "c15-%s-b%d" % (label, m["behaviour"]), m["text"],
                          {"kind": "gates-behaviour", "behaviour": m["line"], "seed": ctx.seed, "mismatch": m["text"]})
    return st, js


def canary(ctx, beh):
    """Binding self-test: three expectations of TLC's matrix are corrupted (one reply class, one
    'unchanged', one 'no data'); the harness must report exactly these three."""
    picks = {}
    with open(beh) as f:
        for line in f:
            b = json.loads(line)
            s = b["steps"][-1]
            if s["k"] != "cmd" or s["w"] != "plain":
                continue
            e = s["exp"]
            srv = b["srv"]
            leader = not any(srv.values())
            if "rep" not in picks and e["rule"] == "auth-gate" and "ok" not in e["rep"] and s["i"] == "get":
                s["exp"] = dict(e, rep=["ok"])
                picks["rep"] = json.dumps(b)
            elif "unchanged" not in picks and leader and e["rule"] == "free" and s["i"] == "set":
                s["exp"] = dict(e, unchanged=True)
                picks["unchanged"] = json.dumps(b)
            elif "nodata" not in picks and leader and e["rule"] == "free" and s["i"] == "get":
                s["exp"] = dict(e, nodata=True)
                picks["nodata"] = json.dumps(b)
            if len(picks) == 3:
                break
    if len(picks) != 3:
        raise common.Infra("self-test: the matrix lacks the cells to corrupt (%s found)" % sorted(picks))
    p = os.path.join(ctx.scratch, "canary.ndjson")
    with open(p, "w") as f:
        for k in ("rep", "unchanged", "nodata"):
            f.write(picks[k] + "\n")
    st, js = execute(ctx, p, "self-test", report=False)
    texts = [m["text"] for m in js.get("mismatches") or []]
    want = ["reply class auth-required not in expected {ok}", "dataset changed", "reply discloses object data"]
    ok = len(texts) == 3 and all(any(w in t for t in texts) for w in want)
    if not ok:
        raise common.Infra("self-test failed: 3 corrupted expectations must give exactly 3 mismatches, got %s" % texts)
    ctx.log("self-test: 3 corrupted expectations (reply class, unchanged, no data) -> 3 mismatches reported: binding is live")
    return 3


def race(ctx):
    """spec/GateRace.tla: the mode a write is judged by is the mode it is applied in (READONLY yes queued ahead of writes)."""
    mc = "---- MODULE MC_%s ----\nEXTENDS GateRace\n====\n"
    r = ctx.tlc("gaterace", ["GateRace.tla"], mc % "gaterace", "SPECIFICATION Spec\n" +
                cfg_consts(Writers='raw:{"w1", "w2", "w3"}', TestUnderLock=True) + "INVARIANT NoWriteInReadOnly\n", workers=2, timeout=300)
    if not r["ok"]:
        raise common.Infra("GateRace (as coded) violates %s" % r["violated"])
    r2 = ctx.tlc("gaterace_dev", ["GateRace.tla"], mc % "gaterace_dev", "SPECIFICATION Spec\n" +
                 cfg_consts(Writers='raw:{"w1", "w2"}', TestUnderLock=False) + "INVARIANT NoWriteInReadOnly\n", workers=2, timeout=300,
                 expect_violation=True)
    if r2["violated"] != "NoWriteInReadOnly":
        raise common.Infra("GateRace: a refusal decided before queueing for the lock is not refuted (vacuous)")
    rc, js, err = ctx.harness(["gates-race", "-rounds", str(ctx.pick(12, 60))], timeout=1200)
    st = js["stats"]
    ctx.log("gate race: TLC %d states (NoWriteInReadOnly; refuted when the refusal is decided before queueing for the lock); %d rounds on "
            "real servers, %d writes went through their critical section after READONLY yes (%d before), %d mismatches"
            % (r["distinct"], st["rounds"], st["writes_ordered_after_the_switch"], st["writes_ordered_before_the_switch"],
               len(js.get("mismatches") or [])))
    for m in (js.get("mismatches") or [])[:3]:
        common.report(ctx, "c15-gaterace-r%d" % m["round"], "gate race (round %d): %s" % (m["round"], m["detail"]), {"kind": "gate-race", "round": m["round"]})
    if st["writes_ordered_after_the_switch"] == 0:
        raise common.Infra("no write was ordered after the READONLY switch in any round (vacuous)")
    return r, st


def run(ctx):
    if ctx.replay:
        return run_replay(ctx)
    thorough = not ctx.quick
    total = {"behaviours": 0, "steps": 0, "cells": 0, "constrained": 0, "checks": 0, "probes": 0}
    by_mode, by_rule = {}, {}
    samples = []
    states = trans = 0

    def acc(st, js):
        for k in total:
            total[k] += st[k]
        for k, v in st["by_mode"].items():
            by_mode[k] = by_mode.get(k, 0) + v
        for k, v in st["by_rule"].items():
            by_rule[k] = by_rule.get(k, 0) + v
        for s in (js.get("samples") or []):
            if len(samples) < 5:
                samples.append(s[:1500])

    # 1. command table from the current source + what every (instance, wrapper) does on a real leader
    #    (both tiers use every argument template)
    rc, meas, err = ctx.harness(["gates-measure", "-repo", common.REPO, "-dir", ctx.scratch, "-thorough"], timeout=900)
    if meas.get("unstable"):
        # (instance, wrapper) cells whose effect on a leader depends on timing, e.g. FOLLOW (the session it starts is
        # asynchronous): the harness keeps the weaker of the two measurements for them; many such cells mean trouble
        if len(meas["unstable"]) > 6:
            raise common.Infra("leader measurements differ between two runs for %d cells: %s" % (len(meas["unstable"]), meas["unstable"][:5]))
        ctx.notes.append("measured twice with different outcomes (the weaker measurement is used): %s" % "; ".join(meas["unstable"]))
        ctx.log("measurement: %d cells differ between the two runs (weaker measurement used): %s" % (len(meas["unstable"]), meas["unstable"]))
    ncmd, ninst, ncell = len(meas["commands"]), len(meas["instances"]), len(meas["cells"])
    nmut = sum(1 for c in meas["cells"] if c["mut"])
    ndata = sum(1 for c in meas["cells"] if c["data"])
    ctx.log("source: %d commands, %d instances; measured on a leader: %d (instance, wrapper) cells, %d modify data, "
            "%d disclose object data, %d not expressible" % (ncmd, ninst, ncell, nmut, ndata, len(meas.get("skipped") or [])))
    if nmut == 0 or ndata == 0 or ncell < ncmd:
        raise common.Infra("measurement is vacuous (%d mutating, %d disclosing cells)" % (nmut, ndata))
    first = set(i["id"] for i in meas["instances"] if "~" not in i["id"] or i["base"] in ("auth", "test"))

    # 2. the design: Gate satisfies the statement for every cell and every allowed outcome
    r = design(ctx, "design", meas, "statement", False, 1)
    states += r["distinct"]
    trans += r["generated"]
    #    ... and a design in which the gate forgets a command (named deviations, DESIGN.md section 5: D1, D16) does not
    as_coded(ctx, "dev_jdel", meas, "DevUngatedWrites", ("jdel", "StmtFollowerReadOnly"))
    as_coded(ctx, "dev_test", meas, "DevUngatedReads", ("test", "StmtNeverCaughtUp"))
    # 3. the matrix of the statement's modes (every template), executed on real servers
    r, beh, n = matrix(ctx, "matrix", meas, "statement", False)
    states += r["distinct"]
    trans += n
    acc(*execute(ctx, beh, "matrix"))
    ncanary = canary(ctx, beh)
    # 4. every consistent combination of the mode flags (follower x READONLY x requirepass|protected);
    #    quick: first template of every command; thorough: every template, non-loopback peers everywhere
    only = first if not thorough else None
    r = design(ctx, "design_all", meas, "all", thorough, ctx.pick(1, 2), timeout=3000, only=only)
    states += r["distinct"]
    trans += r["generated"]
    r, beh2, n = matrix(ctx, "matrix_all", meas, "all", thorough, timeout=3000, only=only)
    states += r["distinct"]
    trans += n
    acc(*execute(ctx, beh2, "matrix-all"))
    if thorough:
        # 5. random connections with several commands (authentication state carried along)
        r, beh3, n = sim(ctx, "sim", meas, "all", 24000, 6, timeout=3000)
        states += r["generated"]
        trans += r["generated"]
        acc(*execute(ctx, beh3, "sim"))
        # 6. both matrices again on the spinlock implementation
        acc(*execute(ctx, beh, "matrix-spinlock", spin=True))
        acc(*execute(ctx, beh2, "matrix-all-spinlock", spin=True))

    if total["constrained"] == 0 or total["checks"] == 0:
        raise common.Infra("nothing was compared (vacuous)")
    for need in ("write-gate", "catchup-gate", "auth-gate", "refused", "connect:refused"):
        if by_rule.get(need, 0) == 0:
            raise common.Infra("no cell of the matrix exercised the clause '%s' (vacuous)" % need)
    gr, gst = race(ctx)
    states += gr["distinct"]
    trans += gr["generated"]
    common.write_evidence(ctx, "model_checking", {
        "states": states,
        "transitions": trans,
        "gate_race": gst,
        "traces_validated_against_impl": total["behaviours"],
        "samples": samples,
        "commands_from_source": ncmd,
        "command_instances": ninst,
        "leader_measurements": ncell,
        "leader_mutating_cells": nmut,
        "leader_data_disclosing_cells": ndata,
        "command_cells_executed": total["cells"],
        "cells_constrained_by_property": total["constrained"],
        "comparisons": total["checks"],
        "authentication_probes": total["probes"],
        "cells_by_mode": by_mode,
        "cells_by_rule": by_rule,
        "self_test_corrupted_expectations_detected": ncanary,
        "exhaustive": True,
        "explanation": "the command table is extracted from the source at check time; TLC enumerates every "
                       "(server mode, connection state, command instance, wrapper) and emits the expectation of "
                       "Gates!Gate; every cell is executed against real servers and compared (reply class, "
                       "projection + aof_size before/after, disclosure of fixture markers, authentication probe).",
    }, [
        "what a command does (modifies data / is served / discloses object data) is measured on a real leader per "
        "(instance, wrapper) with the argument templates of harness/gates/templates.go; a command is checked with "
        "those argument shapes only",
        "'modifies data' = projection (VerifDump) changed or aof_size changed; AOFSHRINK's rewrite of the log is "
        "not a data modification",
        "'discloses object data' = the first reply contains a fixture marker (id, coordinate, field value, string) "
        "that the client did not send; what a detached connection streams after its first reply (AOF, SUBSCRIBE, "
        "MONITOR) is not examined",
        "servers run with DevMode off (production): SHUTDOWN, MASSINSERT and SLEEP are unknown commands there",
        "never-caught-up follower = FOLLOW of a fake leader that answers SERVER and then stalls; non-loopback peer "
        "= connection from 192.0.2.2; TLS and unix-socket peers are not covered",
    ])


def run_replay(ctx):
    p = json.load(open(ctx.replay))
    if p.get("kind") == "gate-race":
        race(ctx)
        return
    beh = os.path.join(ctx.scratch, "replay.ndjson")
    open(beh, "w").write(p["behaviour"] + "\n")
    ctx.seed = int(p.get("seed", ctx.seed))   # the fixture (keys, ids, markers, password) derives from the seed
    execute(ctx, beh, "replay")
