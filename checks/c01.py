"""C01  Command replies and visible state conform to a sequential keyspace model.

Specification: spec/Keyspace.tla (Apply), generators KeyspaceGen (BFS, one shortest
behaviour per transition of the reachable graph) and KeyspaceSim (random behaviours
over the full token table).  Binding: every generated behaviour is replayed into twin
real servers (RESP / JSON); every reply and the final dataset projection must equal the
specification's.
"""
from . import common
from .common import cfg_consts, tla_seq, tla_set

ALL_GEOS = ["g:P1", "g:P2", "g:PZ", "g:B1", "g:H1", "g:G1", "g:GL", "g:GF", "g:GM", "g:GE", "g:S1", "g:S2", "g:SJ"]
ALL_VALS = ["v:0", "v:0.0", "v:1", "v:1.0", "v:2", "v:-3", "v:nan", "v:inf", "v:abc", "v:ABC", "v:abd",
            "v:true", "v:false", "v:null", "v:json", "v:007", "v: 5 "]
ALL_PATS = ["p:*", "p:=1", "p:=2", "p:1*", "p:none"]


def mc_module(name, base, keys, ids, geos, fnames, vals, pats, hooks):
    return """---- MODULE MC_%s ----
EXTENDS %s
MCKeySeq == %s
MCIdSeq == %s
MCGeoSet == %s
MCFNameSeq == %s
MCFValSet == %s
MCPatSet == %s
MCHookSeq == %s
====
""" % (name, base, tla_seq(["k:%d" % i for i in range(1, keys + 1)]),
       tla_seq(["i:%d" % i for i in range(1, ids + 1)]), tla_set(geos),
       tla_seq(["n:%d" % i for i in range(1, fnames + 1)]), tla_set(vals), tla_set(pats),
       tla_seq(["h:%d" % i for i in range(1, hooks + 1)]))


SUBST = dict(KeySeq="<- MCKeySeq", IdSeq="<- MCIdSeq", GeoSet="<- MCGeoSet", FNameSeq="<- MCFNameSeq",
             FValSet="<- MCFValSet", PatSet="<- MCPatSet", HookSeq="<- MCHookSeq")


def bfs(ctx, name, keys, ids, geos, fnames, vals, pats, hooks, withhooks, two, maxhist=12, timeout=900, withjson=False):
    mc = mc_module(name, "KeyspaceGen", keys, ids, geos, fnames, vals, pats, hooks)
    cfg = ("SPECIFICATION Spec\n" + cfg_consts(MaxHist=maxhist, TwoUpdates=two, WithHooks=withhooks, WithJson=withjson, **SUBST) +
           "VIEW View\nINVARIANT StoredForms\nPROPERTY FailureChangesNothing NotUpdatedUnchanged Emit\n")
    r = ctx.tlc(name, ["Keyspace.tla", "KeyspaceGen.tla"], mc, cfg, timeout=timeout)
    if not r["ok"]:
        raise common.Infra("the Keyspace model violates its own property %s (specification error): see %s"
                           % (r["violated"], r["out"]))
    beh = r["dir"] + "/behaviours.ndjson"
    n = ctx.extract_tr(r["out"], beh)
    ctx.log("TLC %s: %d distinct states, %d transitions emitted as behaviours" % (name, r["distinct"], n))
    return r, beh, n


def sim(ctx, name, num, depth, keys=3, ids=3, fnames=2, hooks=2, timeout=900):
    mc = mc_module(name, "KeyspaceSim", keys, ids, ALL_GEOS, fnames, ALL_VALS, ALL_PATS, hooks)
    cfg = ("SPECIFICATION SimSpec\n" + cfg_consts(MaxHist=depth, WithHooks=True, **SUBST) + "INVARIANT StoredForms\n")
    workers = 8
    r = ctx.tlc(name, ["Keyspace.tla", "KeyspaceRand.tla", "KeyspaceSim.tla"], mc, cfg, workers=workers,
                simulate=max(1, num // workers), depth=depth + 5, timeout=timeout)
    if not r["ok"]:
        raise common.Infra("KeyspaceSim violates %s: see %s" % (r["violated"], r["out"]))
    beh = r["dir"] + "/behaviours.ndjson"
    n = ctx.extract_tr(r["out"], beh)
    ctx.log("TLC %s (simulate): %d behaviours of depth %d" % (name, n, depth))
    return r, beh, n


def replay(ctx, beh, label, spin=False):
    rc, js, err = ctx.harness(["ks-replay", "-in", beh, "-par", "8"] + (["-spinlock"] if spin else []))
    st = js["stats"]
    ctx.log("replay %s: %d behaviours, %d steps, %d comparisons, %d mismatches" %
            (label, st["behaviours"], st["steps"], st["compared"], len(js.get("mismatches") or [])))
    lines = None
    groups = {}
    for m in js.get("mismatches") or []:
        key = (m["what"], (m.get("cmd") or ["-"])[0])
        groups.setdefault(key, []).append(m)
    for key, ms in list(groups.items())[:8]:
        m = ms[0]
        if lines is None:
            lines = open(beh).read().split("\n")
        text = "%s mismatch (%d behaviours in this class) at step %d of behaviour %d (%s): cmd=%s %s" % (
            m["what"], len(ms), m["step"], m["behaviour"], label, m.get("cmd"), m["detail"])
        common.report(ctx, "c01-%s-%s-%s" % (label, key[0], key[1].lower()), text,
                      {"kind": "ks-behaviour", "behaviour": lines[m["behaviour"]], "mismatch": m})
    return st, js


def jsonpath(ctx, only=None):
    """spec/JsonPath.tla: structured paths inside one JSON document (array indexes, -1, nested members)."""
    import json
    mc = ("---- MODULE MC_%s ----\nEXTENDS JsonPath, Json\n"
          "Emit == [][PrintT(<<\"TR\", ToJson([steps |-> hist'])>>)]_vars\n====\n")
    if only is not None:
        beh = ctx.scratch + "/jp_replay.ndjson"
        open(beh, "w").write(json.dumps(only) + "\n")
        r = {"distinct": 0, "generated": 0}
    else:
        r = ctx.tlc("jsonpath", ["JsonPath.tla"], mc % "jsonpath", "SPECIFICATION Spec\n" +
                    cfg_consts(MaxLen=ctx.pick(2, 3), JdelTestsWith="write-path") +
                    "VIEW View\nPROPERTY NegativeChangesNothing JdelMeansGone Emit\n", workers=4, timeout=900)
        if not r["ok"]:
            raise common.Infra("JsonPath (as coded) violates %s" % r["violated"])
        r2 = ctx.tlc("jsonpath_dev", ["JsonPath.tla"], mc % "jsonpath_dev", "SPECIFICATION Spec\n" +
                     cfg_consts(MaxLen=2, JdelTestsWith="read-path") + "VIEW View\nPROPERTY JdelMeansGone\n",
                     workers=4, timeout=600, expect_violation=True)
        if r2["violated"] != "JdelMeansGone":
            raise common.Infra("JsonPath: a JDEL that tests the path with the read syntax is not refuted (vacuous)")
        beh = r["dir"] + "/beh.ndjson"
        ctx.extract_tr(r["out"], beh)
    rc, js, err = ctx.harness(["json-replay", "-in", beh, "-par", "8"], timeout=1800)
    st = js["stats"]
    ctx.log("json paths: TLC %d documents, %d transitions (NegativeChangesNothing, JdelMeansGone; refuted when JDEL tests the path "
            "with the read syntax); %d behaviours / %d steps replayed (%d command x path kinds), %d mismatches"
            % (r["distinct"], r["generated"], st["behaviours"], st["steps"], st["kinds"], len(js.get("mismatches") or [])))
    lines = open(beh).read().split("\n")
    groups = {}
    for m in js.get("mismatches") or []:
        b = json.loads(lines[m["behaviour"]])
        s_ = b["steps"][m["step"]]
        groups.setdefault((m["what"], s_["op"], s_["p"]), []).append((m, b))
    for (what, op, path), ms in sorted(groups.items()):
        m, b = ms[0]
        common.report(ctx, "c01-jsonpath-%s-%s-%s" % (what, op, path), "json path %s mismatch (%d behaviours): %s" % (what, len(ms), m["detail"]),
                      {"kind": "jsonpath", "behaviour": b})
    if only is None and (st["steps"] == 0 or st["kinds"] < 25):
        raise common.Infra("json path replay did not exercise the command x path kinds (vacuous): %s" % st)
    return r, st


def run(ctx):
    if ctx.replay:
        return run_replay(ctx)
    total = {"behaviours": 0, "steps": 0, "compared": 0}
    samples = []
    ops = {}
    states = trans = 0

    def acc(st, js):
        for k in total:
            total[k] += st[k]
        for k, v in st["ops"].items():
            ops[k] = ops.get(k, 0) + v
        if len(samples) < 4 and js.get("samples"):
            samples.append(js["samples"][0][:1500])

    # 1. complete reachable graph of the one-key alphabet: every transition replayed
    r, beh, n = bfs(ctx, "onekey", 1, 2, ["g:P1", "g:S1"], 1, ["v:0", "v:1", "v:abc"], ["p:*", "p:=1"], 1,
                    withhooks=False, two=False)
    states += r["distinct"]
    trans += n
    acc(*replay(ctx, beh, "onekey"))
    # 2. two keys (RENAME, KEYS, hooks blocking RENAME): complete graph of a smaller alphabet
    r, beh, n = bfs(ctx, "twokeys", 2, 1, ["g:P1", "g:S1"], 1, ["v:0", "v:abc"], ["p:*", "p:=1"], 1,
                    withhooks=True, two=False)
    states += r["distinct"]
    trans += n
    acc(*replay(ctx, beh, "twokeys"))
    # 2b. JSON documents (JSET / JDEL / JGET) next to plain objects, fields and deadlines
    r, beh, n = bfs(ctx, "json", 1, 1, ["g:P1", "g:S1"], 1, ["v:0", "v:abc"], ["p:*"], 1,
                    withhooks=False, two=False, withjson=True)
    states += r["distinct"]
    trans += n
    acc(*replay(ctx, beh, "json"))
    # 2c. structured paths inside a document (arrays, -1, nested members)
    jr, jst = jsonpath(ctx)
    states += jr["distinct"]
    trans += jr["generated"]
    total["behaviours"] += jst["behaviours"]
    total["steps"] += jst["steps"]
    if not ctx.quick:
        # 3. thorough: a richer one-key alphabet (kinds, equal-but-different values, two updates per command)
        r, beh, n = bfs(ctx, "rich", 1, 2, ["g:P1", "g:GE", "g:S1"], 1,
                        ["v:0", "v:0.0", "v:1", "v:1.0", "v:nan", "v:abc", "v:ABC"], ["p:*", "p:=1", "p:1*"], 1,
                        withhooks=False, two=True, timeout=3000)
        states += r["distinct"]
        trans += n
        acc(*replay(ctx, beh, "rich", spin=True))
    # 4. random behaviours over the full token table
    r, beh, n = sim(ctx, "sim", ctx.pick(400, 20000), ctx.pick(40, 60), timeout=ctx.pick(600, 3000))
    states += r["generated"]
    trans += r["generated"]
    acc(*replay(ctx, beh, "sim"))

    if total["compared"] == 0:
        raise common.Infra("replay compared nothing (vacuous)")
    common.write_evidence(ctx, "model_checking", {
        "states": states,
        "transitions": trans,
        "traces_validated_against_impl": total["behaviours"],
        "samples": samples,
        "replayed_steps": total["steps"],
        "comparisons": total["compared"],
        "ops": ops,
        "exhaustive": True,
        "explanation": "TLC enumerated the complete reachable graph of the small alphabets (VIEW hides the history); "
                       "every transition was emitted as a shortest behaviour and replayed into twin real servers "
                       "(RESP/JSON); simulation behaviours cover the full token table.",
    }, [
        "token table (harness/ks/tokens.go) instantiates the value classes of the specification; numeric parsing "
        "of coordinates and GeoJSON validity are not modelled (geometry is a token)",
        "a stored field value Equal (value order) to the written one keeps its old text (field.List.Set) - modelled as coded",
        "TTL replies are compared as classes (-2, -1, >= 0); deadlines are 100000 s",
    ])


def run_replay(ctx):
    import json
    p = json.load(open(ctx.replay))
    if p.get("kind") == "jsonpath":
        jsonpath(ctx, only=p["behaviour"])
        return
    beh = ctx.scratch + "/replay.ndjson"
    open(beh, "w").write(p["behaviour"] + "\n")
    replay(ctx, beh, "replay")
