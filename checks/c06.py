"""C06  A caught-up follower is an exact copy of its leader.

Specification: spec/Follow.tla (followStep / followCheckSome transcribed: checksum windows, resume position, truncate/reset,
stream, caught-up rule; faults: connection drop, follower restart, leader AOFSHRINK; CopyWhenCaughtUp, NoEarlyCaughtUp,
LogIsLeaderPrefix; three deviation constants = the design as coded before f24111c).
Binding: every distinct (initial follower state, leader writes, fault sequence) of the reachable graph (quick: a seeded
sample) is executed with two real servers and a cut-proxy between them; batches are padded so that the real 512 KiB
checksum window spans 1.5 batches as in the model; at the instant the follower is about to report caught-up (hook) and at
every quiescent point its dataset projection must equal the leader's (collections, objects, fields, hooks, channels).
"""
import json
import os
import random

from . import common
from .common import cfg_consts

BASE = dict(CmdSz=2, W=3)


MC = "---- MODULE MC_%s ----\nEXTENDS %s\nMCOLog == <<2>>\n====\n"


def fcfg(ml, mf, a, b, c, refollow=0, stale="percmd", cuts=True, clears=True,
         extra="VIEW View\nINVARIANT CopyWhenCaughtUp CopyWhenQuiescent NoEarlyCaughtUp LogIsLeaderPrefix\n"):
    return ("SPECIFICATION Spec\n" + cfg_consts(MaxLeader=ml, MaxFaults=mf, SmallNoCheck=a, ZeroNoReset=b, IntactShortcut=c,
                                                MaxRefollow=refollow, StaleCheck=stale, ShrinkCutsCopying=cuts, ClearsAtStep=clears,
                                                OLog="<- MCOLog", **BASE) + extra)


def design(ctx):
    r = ctx.tlc("fol_intended", ["Follow.tla"], MC % ("fol_intended", "Follow"), fcfg(ctx.pick(4, 5), ctx.pick(2, 3), False, False, False), timeout=2400)
    if not r["ok"]:
        raise common.Infra("Follow (intended) violates %s" % r["violated"])
    # the follower is re-pointed to another leader while the session of the first one is still reading
    rr = ctx.tlc("fol_refollow", ["Follow.tla"], MC % ("fol_refollow", "Follow"), fcfg(3, ctx.pick(1, 2), False, False, False, refollow=1), timeout=2400)
    if not rr["ok"]:
        raise common.Infra("Follow (intended, re-follow) violates %s" % rr["violated"])
    r["distinct"] += rr["distinct"]
    r["generated"] += rr["generated"]
    for name, dev in (("fol_small", (True, False, False)), ("fol_zero", (False, True, False)), ("fol_intact", (False, False, True))):
        r2 = ctx.tlc(name, ["Follow.tla"], MC % (name, "Follow"), fcfg(4, 1, *dev), timeout=900, expect_violation=True)
        if r2["violated"] is None:
            raise common.Infra("Follow deviation %s is not detected (vacuous)" % name)
    r3 = ctx.tlc("fol_stale", ["Follow.tla"], MC % ("fol_stale", "Follow"), fcfg(3, 1, False, False, False, refollow=1, stale="atread"),
                 timeout=900, expect_violation=True)
    if r3["violated"] is None:
        raise common.Infra("Follow deviation StaleCheck=atread is not detected (vacuous)")
    r5 = ctx.tlc("fol_keepsflag", ["Follow.tla"], MC % ("fol_keepsflag", "Follow"), fcfg(3, 1, False, False, False, clears=False),
                 timeout=900, expect_violation=True)
    if r5["violated"] is None:
        raise common.Infra("Follow deviation ClearsAtStep=FALSE is not detected (vacuous)")
    r4 = ctx.tlc("fol_midcopy", ["Follow.tla"], MC % ("fol_midcopy", "Follow"), fcfg(4, 1, False, False, False, cuts=False),
                 timeout=900, expect_violation=True)
    if r4["violated"] is None:
        raise common.Infra("Follow deviation ShrinkCutsCopying=FALSE is not detected (vacuous)")
    ctx.log("TLC Follow: intended design %d states (incl. re-follow with a stale session), CopyWhenCaughtUp / NoEarlyCaughtUp / "
            "LogIsLeaderPrefix hold; the three historical deviations of followCheckSome, the stale-session check before the read "
            "and a shrink that does not cut a follower in its backlog copy are refuted" % r["distinct"])
    return r


def scenarios(ctx, rng):
    cfg = fcfg(3, 2, False, False, False, extra="VIEW View\nPROPERTY Emit\n")
    r = ctx.tlc("folgen", ["Follow.tla", "FollowGen.tla"], MC % ("folgen", "FollowGen"), cfg, timeout=900)
    raw = os.path.join(r["dir"], "raw.ndjson")
    ctx.extract_tr(r["out"], raw)
    os.remove(r["out"])
    # scenarios with one re-follow (smaller bounds: 2 leader batches, 1 other fault)
    cfg2 = fcfg(2, 1, False, False, False, refollow=1, extra="VIEW View\nPROPERTY Emit\n")
    r2 = ctx.tlc("folgen2", ["Follow.tla", "FollowGen.tla"], MC % ("folgen2", "FollowGen"), cfg2, timeout=900)
    raw2 = os.path.join(r2["dir"], "raw.ndjson")
    ctx.extract_tr(r2["out"], raw2)
    os.remove(r2["out"])
    r["distinct"] += r2["distinct"]
    r["generated"] += r2["generated"]
    seen = {}
    for line in list(open(raw)) + [l for l in open(raw2) if "refollow" in l]:
        j = json.loads(line)
        key = json.dumps(j, sort_keys=True)
        seen[key] = j
    keys = sorted(seen)
    rng.shuffle(keys)
    out = []
    for i, k in enumerate(keys):
        j = seen[k]
        out.append({"linit": j["meta"]["linit"], "prefix": j["meta"]["prefix"], "foreign": j["meta"]["foreign"],
                    "steps": j["steps"], "small": i % 3 == 2})
    return r, out


def run_scenarios(ctx, scs, label):
    f = os.path.join(ctx.scratch, "scenarios_%s.ndjson" % label)
    with open(f, "w") as o:
        for s in scs:
            o.write(json.dumps(s) + "\n")
    rc, js, err = ctx.harness(["follow-run", "-in", f, "-par", "6"], timeout=3300)
    st = js["stats"]
    ctx.log("%s: %d scenarios on real leader/follower pairs: %d leader batches, %d drops, %d follower restarts, %d leader shrinks, "
            "(%d while the follower was parked in its backlog copy), %d re-follows to a second leader, %d writes on the former leader, "
            "%d quiescent comparisons, %d SERVER samples taken while the follower recovered from a fault (caught_up must come with the leader's counts), %d mismatches" % (
            label, st.get("scenarios", 0), st.get("lwrites", 0), st.get("drops", 0), st.get("frestarts", 0), st.get("lshrinks", 0),
            st.get("lshrinks_midcopy", 0),
            st.get("refollows", 0), st.get("owrites", 0), st.get("syncs", 0), st.get("caughtup_samples", 0), len(js.get("mismatches") or [])))
    groups = {}
    for m in js.get("mismatches") or []:
        s = scs[m["scenario"]]
        init = "empty" if s["prefix"] == 0 and s["foreign"] == 0 else ("prefix" if s["foreign"] == 0 else ("unrelated" if s["prefix"] == 0 else "prefix+foreign"))
        groups.setdefault((m["what"], init, s["small"]), []).append(m)
    never = None
    for (what, init, small), ms in groups.items():
        m = ms[0]
        s = scs[m["scenario"]]
        text = "%s (%d scenarios) follower-initially=%s logs=%s steps=%s: %s" % (what, len(ms), init, "below-window" if small else "above-window",
                                                                                 s["steps"], m["detail"])
        if what == "never":
            # the statement says what a follower that REPORTS caught-up must hold; that it eventually reports it is the
            # specification's EventuallyCaughtUp, not part of C06: such a scenario is not judged
            never = never or text
            continue
        common.report(ctx, "c06-%s-%s" % (what, init), text, {"kind": "follow-scenario", "scenario": s})
    if never and not ctx.violations:
        raise common.Infra("not judged - " + never)
    return st


def run(ctx):
    rng = random.Random(ctx.seed)
    if ctx.replay:
        p = json.load(open(ctx.replay))
        run_scenarios(ctx, [p["scenario"]], "replay")
        return
    d = design(ctx)
    r, scs = scenarios(ctx, rng)
    ctx.log("TLC FollowGen: %d distinct scenarios in the reachable graph (3 leader batches, 2 faults)" % len(scs))
    if ctx.quick:
        # a seeded sample that always contains every initial-state kind and every fault kind
        pick = []
        def want(pred, n):
            got = [s for s in scs if pred(s) and s not in pick][:n]
            pick.extend(got)
        want(lambda s: s["foreign"] > 0 and s["prefix"] == 0, 4)
        want(lambda s: s["foreign"] > 0 and s["prefix"] > 0, 3)
        want(lambda s: s["prefix"] > 0 and s["foreign"] == 0, 3)
        want(lambda s: "frestart" in s["steps"], 4)
        want(lambda s: "drop" in s["steps"], 4)
        want(lambda s: "lshrink" in s["steps"], 4)
        want(lambda s: s["steps"][:1] == ["lshrinkmid"] and "lwrite" in s["steps"][1:], 3)
        want(lambda s: any(a == "frestart" and b == "lshrinkmid" for a, b in zip(s["steps"], s["steps"][1:])) and s["steps"][-1] == "lwrite", 2)
        want(lambda s: "refollow" in s["steps"] and "owrite" in s["steps"] and s["prefix"] == s["linit"], 3)
        want(lambda s: "refollow" in s["steps"] and "owrite" in s["steps"], 3)
        want(lambda s: True, 4)
        scs_run = pick
    else:
        scs_run = scs
    st = run_scenarios(ctx, scs_run, "follow")
    if st.get("syncs", 0) == 0:
        raise common.Infra("nothing compared (vacuous)")
    if st.get("caughtup_samples", 0) == 0:
        raise common.Infra("the follower was never sampled while it recovered from a fault (vacuous)")
    common.write_evidence(ctx, "model_checking", {
        "states": d["distinct"] + r["distinct"], "transitions": d["generated"] + r["generated"],
        "traces_validated_against_impl": st.get("scenarios", 0), "scenarios_in_graph": len(scs),
        "quiescent_comparisons": st.get("syncs", 0), "caught_up_samples_during_recovery": st.get("caughtup_samples", 0), "faults": {k: st.get(k, 0) for k in ("drops", "frestarts", "lshrinks", "lshrinks_midcopy", "refollows", "owrites")},
        "samples": scs_run[:3], "exhaustive": not ctx.quick,
        "explanation": "Design: TLC explores all leader histories (<=4/5 commands incl. a non-idempotent one), initial follower logs "
                       "(prefix + foreign suffix) and fault sequences. Conformance: scenarios from the reachable graph run on real "
                       "server pairs; dataset equality at the caught-up instant and at quiescence.",
    }, [
        "initial follower logs are leader-prefix + foreign suffix (monotone divergence); adversarially similar logs are out of scope",
        "the leader is kept quiescent from a (re)connect until the follower reports caught-up, so that the caught-up instant can be judged",
        "PUBLISH frames interleaved into the replication stream are not exercised",
    ])
