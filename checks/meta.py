"""Per-check metadata from which bin/mkmanifest writes MANIFEST.json."""

HOOK_COMMITS = ["3c48510", "e2e1b97", "035de92", "8d2dfbb", "87c61cc", "5f32c19", "20f82c0", "cad1219", "e2c6986"]
FIX_COMMITS = ["4036763", "5f5d3b9", "e0b60a8", "6cf1e6b", "6eae605", "8378524", "a71bd21", "3012537", "59d973f", "aa35bd8", "58124f2", "9fc07cf", "5316fe1", "f24111c", "ed45003"]

NOTES = ("One engine: TLA+ specifications under spec/, TLC for the design, Go harness (harness/) for conformance. "
         "Exit 2 (INFRA-ERROR) is never a verdict. known_findings.json lists recorded genuine defects.")

NOT_APPLICABLE = {}

CHECKS = {
    "C01": {
        "level": "model_checking",
        "technique": "TLA+ Keyspace spec; TLC reachable-graph transition cover + simulation replayed into real servers (model->code conformance)",
        "text": "TLC enumerates the complete reachable graph of small alphabets of the Keyspace specification (invariants and action "
                "properties checked on the design) and emits one behaviour per transition; every behaviour, plus random behaviours over "
                "the full token table, is replayed into twin real servers (RESP and JSON) and every reply and the final dataset "
                "projection must equal the specification's.",
        "note": "Trusted: the token table and the state projection (VerifDump). Numeric parsing of coordinates is not modelled.",
    },
    "C03": {
        "level": "model_checking",
        "technique": "TLA+ AOF spec (RestartEquivalence) model-checked; TLC-simulated histories with kill snapshots / restarts replayed on real servers",
        "text": "TLC proves RestartEquivalence (Replay(log) = state) over all histories of a small alphabet and shows it fails when a mutating "
                "command is missing from the write table; TLC-simulated behaviours over the full token table (all write kinds, JSET/JDEL, "
                "script-issued writes, expiry, hooks/channels) run on a real server; at every kill instant (log file copied right after the "
                "acknowledgement, or during a pipelined burst) and clean restart a fresh server loads the log and its dataset must equal the "
                "specification's state.",
        "note": "Process kill = copy of the log at that instant; deadlines compared as has-deadline; no fsync/power-loss model.",
    },
    "C08": {
        "level": "model_checking",
        "technique": "TLA+ Prewrite spec model-checked; every transition of the protocol graph forced as a schedule on the real server via gate hooks; trace validated by TLC",
        "text": "TLC checks AckImpliesFlushed and the inductive DirtyCoversBuf on the pre-write protocol (3 connections, background flusher, "
                "go-live pipelines) and that each historical deviation breaks it; every transition of the 2x2 protocol graph plus random "
                "3/4-connection schedules is forced on a real server through the verif gates; PrewriteTrace validates the recorded "
                "append/flush/write events: at each socket write the command's bytes are in the file on disk.",
        "note": "Gates park connections only outside the server lock; background flusher runs on its own clock (can hide, never cause, a failure).",
    },
    "C04": {
        "level": "fault_enumeration",
        "technique": "TLA+ Torn spec (loadAOF parse loop) model-checked; byte-offset fault enumeration of real logs with expected states from the TLA+ AOF spec",
        "text": "TLC checks the recovery invariants of the loadAOF loop (chunked reads, NUL skipping, fragment cut, aofsz) for every log shape x "
                "padding x tear offset in the bound. Logs are produced by the real server from TLC behaviours; for byte offsets of each log "
                "(quick: all offsets within 3 bytes of a boundary + a stride; thorough: every offset), with and without NUL runs at command "
                "boundaries, a real server starts on the cut file: dataset = the specification's state after the last complete command, file cut "
                "back to that boundary, one more acknowledged write survives another restart.",
        "note": "Expected states from TLC; byte boundaries from the harness' own RESP encoder. NULs inside a command / other corruption out of scope.",
    },
    "C11": {
        "level": "model_checking",
        "technique": "TLA+ Cursor spec (counting rule of scanWriter/collection); TLC proves the paging theorem exhaustively, generates datasets with every reply+cursor of every SCAN/SEARCH paging run (model->code), and judges recorded paging runs of all five families (code->model)",
        "text": "TLC checks, for every index length/filter mask/stop position/LIMIT within the bound, that following the cursor of the counting rule (numberIters/hitLimit) yields exactly the unlimited sequence, 0 only at the end, strictly increasing cursors, termination. CursorGen enumerates every collection over a small id universe (and random ones over a larger one) and predicts every reply and cursor value of SCAN (id order, incl. glob.Parse range start) and SEARCH (value order) for MATCH x WHERE/WHEREIN/WHEREEVAL x ASC/DESC x LIMIT 1..n+1; real servers (RESP and JSON connections) are paged and compared reply by reply. The same collections plus seeded collections of up to 400 (quick) / 1500 (thorough) objects with churn are paged through SCAN, SEARCH, WITHIN, INTERSECTS, NEARBY; every run and the unlimited reply are judged by TLC (CursorTrace, Cursor!Satisfies).",
        "note": "On R-tree walks (WITHIN/INTERSECTS/NEARBY) the cursor is opaque: only the statement is demanded. Glob semantics beyond literal/prefix/suffix patterns belongs to C12. SPARSE excluded (server refuses CURSOR/LIMIT with it). checks/c11_selftest.py proves the binding is not vacuous.",
    },
    "C15": {
        "level": "model_checking",
        "technique": "TLA+ Gates spec; command table extracted from the source; per-command behaviour measured on a real leader; TLC checks the statement on the gate function and emits the (mode x connection state x command x wrapper) matrix, every cell executed on real servers (model->code)",
        "text": "The command list is parsed at check time from the switch in Server.command, the name tests of handleInputCommand/netServe, the script dispatch tables and core/commands.json (a name without an argument template is an INFRA error). For every (command instance, wrapper) the harness measures on a real leader whether it modifies data, is served, or discloses object data; these tables are constants of Gates.tla. TLC checks that Gates!Gate satisfies the statement for every cell and every allowed outcome, then emits one behaviour per cell with the expected reply classes / unchanged / no-data / authenticated-afterwards. The harness executes each behaviour against real servers (leader, follower of a stalling fake leader, follower of a real leader, READONLY, requirepass with fresh / wrong-password / authenticated connections, protected mode with a loopback and a 192.0.2.2 peer) under 10 wrappers (plain, TIMEOUT, EVAL/EVALRO/EVALNA tile38.call, JSON output, native protocol, HTTP without / with right / with wrong Authorization) and compares reply class, dataset projection + aof_size before/after, marker disclosure, and an authentication probe.",
        "note": "A command is checked with the argument shapes of harness/gates/templates.go only. Only the first reply of a detaching command is examined. Servers run with DevMode off. TLS and unix-socket peers are not covered.",
    },
    "C16": {
        "level": "model_checking",
        "technique": "TLA+ Proto spec (byte-level framing of RESP/telnet/native/HTTP, carry-over buffer, message loop) with ProtoGen (every segmentation of every small stream; SplitInvariant/OnePerCommand model-checked), ProtoSim (long pipelines, values above the read buffer) and ProtoMal (every single-operator mutation + random bytes; Contained model-checked); TLC's streams, cuts and malformed inputs sent as literal bytes to real servers (model->code conformance)",
        "text": "TLC enumerates every stream of <=2 (thorough: 3) frames over five request syntaxes and every segmentation of it, checking SplitInvariant, OnePerCommand and CarryIncomplete on the design; each stream is sent to real servers unsplit, under every 2-way cut (every 3-way cut for the small alphabet), byte-at-a-time and random k-way cuts, and the parsed reply sequence (number, order, transport, encoding, content) must equal the unsplit run's and the specification's; a sample of segments is verified through NETLINK_SOCK_DIAG to have been consumed before the next write. Long streams from ProtoSim (pipelines of 1500/5000 frames, 200 KB values) are cut at 2-way positions, fixed sizes around the 64 KiB read buffer and random k-way. Malformed input: every single-operator mutation (delete/duplicate/replace/insert/truncate at every position; RESP count, bulk length, native length, Content-Length with negative/empty/non-numeric/off-by-one/huge/2^63-1/2^63 values; quoting and HTTP request-line variants) plus TLC-simulated random byte strings go to tile38-server subprocesses, one per connection with a bystander connection: outcome (replies, close, waiting) as specified, bystander answered, process alive. TLC refutes Contained for the parser as coded before the fix.",
        "note": "Reply texts of mutated commands are not compared. WebSocket upgrade, OPTIONS preflight, QUIT and OUTPUT switching are not modelled; lengths of more than 9 digits are classes (huge / within 800 of 2^63-1). Coalesced TCP segments reduce coverage, never cause alarms.",
    },
    "C19": {
        "level": "model_checking",
        "technique": "TLA+ Index spec (incremental bookkeeping) model-checked; TLC transition cover of kind-changing histories replayed with an in-package audit and black-box recomputation after every step",
        "text": "TLC checks BookkeepingExact on the incremental setFill/Delete model for all histories over 2 ids x 24 object values and shows two broken "
                "bookkeepings are detected. The complete transition cover of kind-changing alphabets (string/point/empty geometry/polygon, deadline, "
                "fields, rename/drop/hooks) and random behaviours over the full token table are replayed on real servers; after every step the "
                "in-package audit walks the four indexes, counters, hook registries and group maps, and STATS/SERVER/BOUNDS/KEYS/SCAN/SEARCH/"
                "WITHIN/INTERSECTS/NEARBY are compared with a recomputation from the retrievable objects.",
        "note": "Per-geometry points/bounds are calibrated on a server holding only that object; in_memory_size is recomputed in-package only.",
    },
    "C07": {
        "level": "model_checking",
        "technique": "TLA+ Locking spec model-checked (intended, deviations, and the class table observed on the real server); concurrent executions recorded in lock order through hooks and validated against the sequential Keyspace spec run by TLC (code->model); every command of the repository's own suite recorded at its linearization point and judged by TLC (SysTrace)",
        "text": "TLC checks NoConflict / MutatorsHoldW / ReadersHoldLock for all interleavings of 3 clients with the intended class table, shows that the "
                "historical deviations break them, and re-checks with the table observed in the runs. Concurrent clients (2-8, plain and multi-object "
                "commands, JSON documents, EVAL/EVALRO/EVALNA scripts) run TLC-generated programs on both lock implementations; hooks stamp each "
                "command and script call with its position in the order the server lock was held and the lock mode; TLC runs the Keyspace model "
                "along that order (KeyspaceOrder) and every reply, the final dataset, the lock mode of every changing step, the log (= logged "
                "commands in lock order), real-time precedence and script windows are compared. System trace: the repository's own "
                "integration suite runs with the hooks on; each of its ~77 000 commands (62 command names) is judged by TLC at its "
                "linearization point (SysTrace: WriteClassHoldsW, MutatorsHoldW, LogOnlyUnderW, ChangedIsLogged) and the class table it "
                "exhibits is re-checked in Locking for all interleavings.",
        "note": "Schedules on the real code are what the OS scheduler produces; design-level interleavings are exhaustive. Live fences / background expiry are covered at design level and by C05/C14.",
    },
    "C12": {
        "level": "model_checking",
        "technique": "TLA+ operator specs Glob / FieldOrder / Filters; TLC enumerates every pattern of the bound with its complete match set and every filter/query case (model->code: glob.Match in-package and every range-shortcut user on real servers holding the whole string universe); glob.Parse limits are recorded and judged by TLC against RangeSound (code->model)",
        "text": "TLC enumerates all byte patterns (<=3 quick, <=4 thorough, 11-byte alphabet incl. 00/ff and all metacharacters) and all concatenations of whole glob terms with their match sets over all strings <=3, checking on the design that a sound range shortcut exists, literals match themselves, malformed patterns match nothing. Every case is compared with glob.Match on every (pattern,string) pair and with KEYS, SCAN MATCH ASC/DESC (+COUNT), SEARCH MATCH ASC/DESC (+COUNT), PDEL, HOOKS, CHANS, PDELHOOK, PDELCHAN on servers whose keys/ids/values/hook/channel names are the whole universe. The limits returned by the real glob.Parse are judged by TLC (RangeSound under each walk). FieldOrder/Filters: every WHERE min/max (incl. exclusive), operator, WHEREIN pair over a 22-value table of all kinds (missing = 0) and every family x MATCH x WHERE x WHEREIN x WHEREEVAL x ASC/DESC combination on all datasets over 2 (quick) / 3 (thorough) slots mixing points and strings, compared as IDS and as COUNT without LIMIT.",
        "note": "Byte alphabet without valid multi-byte UTF-8. As coded where the statement is silent: NaN incomparable, bytes >=0x80 inside a class are malformed. Known finding: limits of a literal prefix ending in 0xff (pinned by the repository's own glob_test.go).",
    },
    "C18": {
        "level": "model_checking",
        "technique": "TLA+ Scripts spec model-checked; TLC-derived schedules forced with the script.call gate on real servers; script-heavy concurrent runs validated in lock order by TLC; reachable script globals enumerated and judged against the TLA+ allow-list",
        "text": "TLC checks ScriptAtomic / RoNoWriteInside / RONeverWrites for EVAL, EVALRO, EVALNA against a concurrent reader/writer and derives, per "
                "configuration, whether the other command may take effect while the script is between two calls; each case is forced on a real "
                "server (script parked by the gate) on both lock implementations. Script-heavy concurrent runs are validated in lock order "
                "(KeyspaceOrder: replies, final state, windows, log). Sandbox: the globals reachable in every pooled interpreter, enumerated from Go "
                "before and after 17 adversarial scripts, must equal ScriptEnv!AllowList (judged by TLC).",
        "note": "Cannot prove that an allow-listed function has no escape inside gopher-lua. Known findings: pooled interpreters keep script-made mutations of library tables / existing globals.",
    },
    "C09": {
        "level": "model_checking",
        "technique": "TLA+ Shrink spec model-checked over every interleaving and kill point; TLC-generated programs and interleaved commands forced through the shrink.* gates on real servers, crash points copy the data directory; recovered dataset compared with the dataset served",
        "text": "TLC checks ShrunkEquivalent / CrashRecoverable / LiveLogAlwaysGood for the batched rewrite with a concurrent writer at every "
                "interleaving point and every kill point (403 k states), and refutes them for RENAME, non-idempotent appends and a swap without "
                "backup recovery. On real servers (datasets from TLC programs plus fillers of every kind so that each model key/id is in its own "
                "scan batch) the gates park the rewrite between batches while TLC-generated commands are issued; each step of the swap is a crash "
                "point; the dataset served at the end must equal what a fresh server recovers from the rewritten log and from each crash copy.",
        "note": "Kill = copy of the data directory at that instant. Known findings: concurrent RENAME and non-idempotent JSET append (rewrite algorithm).",
    },
    "C06": {
        "level": "model_checking",
        "technique": "TLA+ Follow spec (followCheckSome transcribed, with the historical deviations as constants) model-checked; every distinct scenario of the reachable graph (initial follower state x leader writes x fault sequence) executed on real leader/follower pairs through a cut-proxy; dataset equality at the caught-up hook and at quiescence",
        "text": "TLC checks CopyWhenCaughtUp / NoEarlyCaughtUp / LogIsLeaderPrefix over all leader histories (incl. a non-idempotent command), initial "
                "follower logs (leader prefix + foreign suffix) and fault sequences (connection drop, follower restart, leader AOFSHRINK), and refutes "
                "the three deviations of the pre-fix followCheckSome. The distinct scenarios of the graph (quick: a seeded sample covering every "
                "initial-state and fault kind; thorough: all ~940) run on two real servers with padded batches so that the real 512 KiB checksum "
                "window spans 1.5 batches; at the instant before caught-up is reported (hook) and at every quiescent point the follower's dataset "
                "(collections, objects, fields, hooks, channels) must equal the leader's.",
        "note": "Monotone divergence assumed for initial follower logs. Leader kept quiescent between a (re)connect and the caught-up report. PUBLISH frames in the replication stream not exercised.",
    },
    "C20": {
        "level": "model_checking",
        "technique": "TLA+ Roam spec (neighbour sets over an integer haversine table, NODWELL, glob id patterns); TLC complete transition cover + simulation replayed into real servers with the ROAM fence on a channel, a webhook and a live connection (model->code conformance)",
        "text": "TLC enumerates every configuration of 3 objects on a grid whose cell side is below and whose diagonal is above the radius, x id pattern (*, prefix, exact id, ?-patterns) x NODWELL, checks the statement of C20 (action property RoamExact, client-side invariant TrackedPairsExact) on the design and shows that the historical radius filter violates it; every transition (every SET of every object to every cell, every DEL) plus random long behaviours with 4-5 objects on 4x4/5x5 grids is executed on real servers and, after each SET, the nearby/faraway entries received on channel, webhook and live connection must equal TLC's (ids exactly, metres within 0.5 %). A mutation self-test corrupts expected values and must be detected.",
        "note": "Trusted: the harness' own haversine/bounding-rectangle tables (mean sphere 6371008.8 m; every pair is >=5 % away from the radius). Points only, fence key = ROAM key, patterns with literals/*/? only, ROAM ... SCAN not exercised; entry order not asserted.",
    },
}
