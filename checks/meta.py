"""Per-check metadata from which bin/mkmanifest writes MANIFEST.json."""

HOOK_COMMITS = ["3c48510", "e2e1b97", "035de92", "8d2dfbb"]
FIX_COMMITS = ["4036763", "5f5d3b9", "e0b60a8", "6cf1e6b"]

NOTES = ("One engine: TLA+ specifications under spec/, TLC for the design, Go harness (harness/) for conformance. "
         "Exit 2 (INFRA-ERROR) is never a verdict. known_findings.json lists recorded genuine defects.")

NOT_APPLICABLE = {}

CHECKS = {
    "C01": {
        "level": "model_checking",
        "technique": "TLA+ Keyspace spec; TLC reachable-graph transition cover + simulation replayed into real servers (model->code conformance)",
        "text": "TLC enumerates the complete reachable graph of small alphabets of the Keyspace specification (invariants and action "
                "properties checked on the design) and emits one behaviour per transition; every behaviour, plus random behaviours over "
                "the full token table, is replayed into twin real servers (RESP and JSON) and every reply and the final dataset "
                "projection must equal the specification's.",
        "note": "Trusted: the token table and the state projection (VerifDump). Numeric parsing of coordinates is not modelled.",
    },
    "C03": {
        "level": "model_checking",
        "technique": "TLA+ AOF spec (RestartEquivalence) model-checked; TLC-simulated histories with kill snapshots / restarts replayed on real servers",
        "text": "TLC proves RestartEquivalence (Replay(log) = state) over all histories of a small alphabet and shows it fails when a mutating "
                "command is missing from the write table; TLC-simulated behaviours over the full token table (all write kinds, JSET/JDEL, "
                "script-issued writes, expiry, hooks/channels) run on a real server; at every kill instant (log file copied right after the "
                "acknowledgement, or during a pipelined burst) and clean restart a fresh server loads the log and its dataset must equal the "
                "specification's state.",
        "note": "Process kill = copy of the log at that instant; deadlines compared as has-deadline; no fsync/power-loss model.",
    },
    "C08": {
        "level": "model_checking",
        "technique": "TLA+ Prewrite spec model-checked; every transition of the protocol graph forced as a schedule on the real server via gate hooks; trace validated by TLC",
        "text": "TLC checks AckImpliesFlushed and the inductive DirtyCoversBuf on the pre-write protocol (3 connections, background flusher, "
                "go-live pipelines) and that each historical deviation breaks it; every transition of the 2x2 protocol graph plus random "
                "3/4-connection schedules is forced on a real server through the verif gates; PrewriteTrace validates the recorded "
                "append/flush/write events: at each socket write the command's bytes are in the file on disk.",
        "note": "Gates park connections only outside the server lock; background flusher runs on its own clock (can hide, never cause, a failure).",
    },
}
