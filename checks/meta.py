"""Per-check metadata from which bin/mkmanifest writes MANIFEST.json."""

HOOK_COMMITS = ["3c48510", "e2e1b97", "035de92", "8d2dfbb"]

NOTES = ("One engine: TLA+ specifications under spec/, TLC for the design, Go harness (harness/) for conformance. "
         "Exit 2 (INFRA-ERROR) is never a verdict. known_findings.json lists recorded genuine defects.")

NOT_APPLICABLE = {}

CHECKS = {
    "C01": {
        "level": "model_checking",
        "technique": "TLA+ Keyspace spec; TLC reachable-graph transition cover + simulation replayed into real servers (model->code conformance)",
        "text": "TLC enumerates the complete reachable graph of small alphabets of the Keyspace specification (invariants and action "
                "properties checked on the design) and emits one behaviour per transition; every behaviour, plus random behaviours over "
                "the full token table, is replayed into twin real servers (RESP and JSON) and every reply and the final dataset "
                "projection must equal the specification's.",
        "note": "Trusted: the token table and the state projection (VerifDump). Numeric parsing of coordinates is not modelled.",
    },
}
