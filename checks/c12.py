"""C12  Filters mean what they say; range and count shortcuts never change results.

Specification: spec/Glob.tla (meaning of a glob, the requirement RangeSound on any id-range
shortcut), spec/FieldOrder.tla (value order, WHERE / WHEREIN), spec/Filters.tla (which objects
a filtered query keeps, walk order, DESC = reverse, COUNT = Len(IDS)).

TLC (1) enumerates every pattern of the bound with its complete match set over the universe of
all strings of the bound (GlobGen), (2) evaluates every WHERE/WHEREIN filter on a dataset with
every value kind and every query combination on all small datasets (FiltersGen), checking the
design theorems on the way, and (3) judges the limits recorded from the real glob.Parse
against RangeSound (GlobTrace, code -> model).

Binding: the harness (filt-glob, filt-query) runs every generated case against the real code:
glob.Match in-package on every (pattern, string) pair, and real servers whose keyspace holds the
whole universe through every user of the range shortcut (KEYS, SCAN MATCH asc/desc, SEARCH
MATCH, PDEL, HOOKS, CHANS, PDELHOOK, PDELCHAN); query cases through SCAN / SEARCH / WITHIN /
INTERSECTS / NEARBY with IDS and COUNT.  Expected values are TLC's.

Self-test knobs (the binding is not vacuous): VERIF_C12_CORRUPT=glob drops one string from every
match set TLC prints; VERIF_C12_CORRUPT=count adds 1 to one expected COUNT: both must end in
VIOLATION lines on an unchanged tree.
"""
import json
import os

from . import common
from .common import cfg_consts

ALPHA = [0, 42, 45, 63, 91, 92, 93, 94, 97, 98, 255]          # \x00 * - ? [ \ ] ^ a b \xff

# whole glob terms for the "terms" pattern mode (classes with ranges, negation, escapes ...)
TERMS = [b"a", b"b", b"\x00", b"\xff", b"*", b"?",
         b"[a]", b"[^a]", b"[ab]", b"[a-b]", b"[^a-b]", b"[\x00-a]", b"[b-a]", b"[\\]]", b"[*]", b"[\xff]", b"[^\\-]",
         b"\\*", b"\\?", b"\\[", b"\\\\", b"\\a", b"]", b"^", b"-", b"["]

MAX_VIOLATIONS_REPORTED = 20

DESC_USERS = ("SCAN-MATCH-DESC", "SCAN-MATCH-DESC-COUNT", "SEARCH-MATCH-DESC", "SEARCH-MATCH-DESC-COUNT")
# users whose index walk keeps a name equal to the upper limit (keys.go, hooks.go)
INCLUSIVE_USERS = ("KEYS", "HOOKS", "CHANS", "PDELHOOK-count", "PDELHOOK-victims", "PDELCHAN-count", "PDELCHAN-victims")


def tla_bytes(b):
    return "<<" + ", ".join(str(x) for x in b) + ">>"


def tla_seq_of_bytes(xs):
    return "<<" + ", ".join(tla_bytes(x) for x in xs) + ">>"


def corrupt_mode():
    return os.environ.get("VERIF_C12_CORRUPT", "")


class Acc:
    """what was compared, for the evidence"""

    def __init__(self):
        self.states = 0
        self.transitions = 0
        self.cases = 0
        self.samples = []
        self.glob = {"match_pairs": 0, "parse_records_judged_by_tlc": 0, "server_cmds": 0, "server_checks": {},
                     "returned_items": 0, "patterns": 0, "pattern_classes": {}, "unsound_limits": 0}
        self.query = {"datasets": 0, "queries": 0, "server_cmds": 0, "ids_replies_compared": 0,
                      "count_replies_compared": 0, "by_family": {}, "by_filter": {}}
        self.disagreements = 0
        self.violations_suppressed = 0
        self.design = []


def report(ctx, acc, name, text, payload):
    """common.report with a cap on the number of VIOLATION files written."""
    acc.disagreements += 1
    if common.classify(ctx, text) is None and len(ctx.violations) >= MAX_VIOLATIONS_REPORTED:
        acc.violations_suppressed += 1
        return
    common.report(ctx, name, text, payload)


# ----------------------------------------------------------------------------- glob
def glob_gen(ctx, acc, name, mode, minpat, maxpat, maxstr, timeout=1200):
    mc = """---- MODULE MC_%s ----
EXTENDS GlobGen
MCAlpha == %s
MCTerms == %s
====
""" % (name, tla_bytes(ALPHA), tla_seq_of_bytes(TERMS))
    corrupt = 0
    if corrupt_mode() == "glob":
        corrupt = 3                           # self-test: universe string no. 3 ("\x00\x00") leaves every match set
    cfg = ("SPECIFICATION Spec\n" +
           cfg_consts(AlphaSeq="<- MCAlpha", TermSeq="<- MCTerms", PatMode=mode, MaxStr=maxstr, MinPat=minpat,
                      MaxPat=maxpat, Corrupt=corrupt) +
           "INVARIANT IntendedRangeSound LiteralMatchesSelf StarMatchesAll MalformedMatchesNothing\n")
    r = ctx.tlc(name, ["Glob.tla", "GlobGen.tla"], mc, cfg, timeout=timeout)
    if not r["ok"]:
        raise common.Infra("the Glob specification violates its own theorem %s (specification error): see %s"
                           % (r["violated"], r["out"]))
    cases = r["dir"] + "/cases.ndjson"
    n = ctx.extract_tr(r["out"], cases)
    if n < 2:
        raise common.Infra("GlobGen %s produced no cases" % name)
    acc.states += r["distinct"]
    acc.transitions += r["generated"]
    ctx.log("TLC %s: %d patterns (%s, length %d..%d) x universe of strings <= %d: %d states, %.0fs"
            % (name, n - 1, mode, minpat, maxpat, maxstr, r["distinct"], r["wall_s"]))
    return cases, n - 1


def glob_design_deviation(ctx, acc):
    """On the design: the limits as glob.Parse computes them break RangeSound (TLC counterexample)."""
    name = "globcoded"
    mc = """---- MODULE MC_%s ----
EXTENDS GlobGen
MCAlpha == %s
MCTerms == %s
====
""" % (name, tla_bytes(ALPHA), tla_seq_of_bytes(TERMS))
    cfg = ("SPECIFICATION Spec\n" +
           cfg_consts(AlphaSeq="<- MCAlpha", TermSeq="<- MCTerms", PatMode="bytes", MaxStr=2, MinPat=0, MaxPat=2,
                      Corrupt=0) + "INVARIANT CodedRangeSound\n")
    r = ctx.tlc(name, ["Glob.tla", "GlobGen.tla"], mc, cfg, timeout=300, expect_violation=True, workers=1)
    pat = None
    with open(r["out"], errors="replace") as f:
        for line in f:
            line = line.strip()
            if line.startswith("/\\ p = "):
                pat = line[len("/\\ p = "):]
    acc.design.append({"config": "Glob with limits as coded (named deviation CodedLimitsAsc)",
                       "result": "RangeSound violated" if r["violated"] else "no violation found",
                       "counterexample_pattern": pat})
    ctx.log("TLC design (limits as coded): %s, counterexample pattern %s"
            % ("CodedRangeSound violated" if r["violated"] else "NOT violated", pat))
    return r


def load_cases(path):
    uni, cases = None, []
    with open(path) as f:
        for line in f:
            if not line.strip():
                continue
            j = json.loads(line)
            if j["kind"] == "universe":
                uni = (j, line.rstrip("\n"))
            else:
                cases.append((j, line.rstrip("\n")))
    return uni, cases


def pyquote(b):
    return json.dumps(bytes(b).decode("latin1"))


def glob_round(ctx, acc, cases_path, label, server=True, par=8):
    """harness on the cases, TLC on the recorded limits, report every disagreement"""
    d = os.path.dirname(cases_path)
    limits = os.path.join(d, "limits.ndjson")
    mism_path = os.path.join(d, "mismatches.ndjson")
    args = ["filt-glob", "-in", cases_path, "-limits", limits, "-out", mism_path, "-par", str(par)]
    if not server:
        args.append("-no-server")
    rc, js, err = ctx.harness(args, timeout=7200)
    st = js["stats"]
    uni, cases = load_cases(cases_path)
    if st["cases"] != len(cases) or st["parse_records"] != len(cases):
        raise common.Infra("filt-glob %s handled %d of %d cases" % (label, st["cases"], len(cases)))
    if st["match_pairs"] != len(cases) * js["universe"]:
        raise common.Infra("filt-glob %s compared %d pairs, expected %d" % (label, st["match_pairs"], len(cases) * js["universe"]))
    nonempty = len([1 for c, _ in cases if c["p"]])
    if server:
        for user in ("KEYS", "SCAN-MATCH-ASC", "SCAN-MATCH-DESC", "SCAN-MATCH-COUNT", "SEARCH-MATCH-ASC",
                     "SEARCH-MATCH-DESC", "SEARCH-MATCH-COUNT", "PDEL-count", "PDEL-victims", "HOOKS", "CHANS",
                     "PDELHOOK-count", "PDELHOOK-victims", "PDELCHAN-count", "PDELCHAN-victims"):
            if st["server_checks"].get(user, 0) != nonempty:
                raise common.Infra("filt-glob %s: user %s compared %d of %d patterns (vacuous)"
                                   % (label, user, st["server_checks"].get(user, 0), nonempty))
    # code -> model: TLC judges the recorded limits of glob.Parse
    name = "globtrace_" + label
    mc = """---- MODULE MC_%s ----
EXTENDS GlobTrace
MCAlpha == %s
====
""" % (name, tla_bytes(uni[0]["alpha"]))
    cfg = "SPECIFICATION Spec\n" + cfg_consts(AlphaSeq="<- MCAlpha", MaxStr=uni[0]["maxstr"])
    r = ctx.tlc(name, ["Glob.tla", "GlobTrace.tla"], mc, cfg, timeout=3600, files=[limits])
    if not r["ok"]:
        raise common.Infra("GlobTrace %s: %s" % (label, r["violated"]))
    vpath = r["dir"] + "/verdicts.ndjson"
    nv = ctx.extract_tr(r["out"], vpath, tag="TV")
    if nv != len(cases):
        raise common.Infra("GlobTrace %s judged %d of %d recorded limits" % (label, nv, len(cases)))
    acc.states += r["distinct"]
    acc.transitions += r["generated"]
    verdict = {}
    with open(vpath) as f:
        for line in f:
            v = json.loads(line)
            verdict[v["i"]] = v
    # accounting
    acc.cases += len(cases)
    g = acc.glob
    g["patterns"] += len(cases)
    g["match_pairs"] += st["match_pairs"]
    g["parse_records_judged_by_tlc"] += nv
    g["server_cmds"] += st["server_cmds"]
    g["returned_items"] += st["returned_items"]
    for k, v in st["server_checks"].items():
        g["server_checks"][k] = g["server_checks"].get(k, 0) + v
    for c, _ in cases:
        g["pattern_classes"][c["cls"]] = g["pattern_classes"].get(c["cls"], 0) + 1
    if len(acc.samples) < 6:
        picked = 0
        for c, _ in cases[len(cases) // 3:]:
            if c["n"] > 0 and c["cls"] != "plain" or c["n"] > 1:
                acc.samples.append({"pattern": pyquote(c["p"]), "class": c["cls"], "matches_in_universe": c["n"],
                                    "universe_strings": js["universe"], "round": label,
                                    "first_matches": [pyquote(uni[0]["strs"][i - 1]) for i in c["m"][:4]]})
                picked += 1
                if picked == 2:
                    break
    ustr = uni[0]["strs"]

    def payload(ci, extra):
        p = {"kind": "glob", "universe": uni[1], "case": cases[ci][1], "server": server}
        p.update(extra)
        return p

    # 1. the recorded limits that TLC found unsound
    nunsound = 0
    for i in sorted(verdict):
        v = verdict[i]
        for d_, key in (("ascending id/value walk", "asc"), ("descending id walk", "desc"), ("descending value walk", "vdesc")):
            if v[key + "_sound"]:
                continue
            nunsound += 1
            lost = [pyquote(ustr[x - 1]) for x in v[key + "_lost"]]
            text = ("range-shortcut user=glob.Parse class=%s pattern=%s walk=%s lost=%d extra=0 order=False "
                    "explained-by-recorded-limits=yes : RangeSound violated by the recorded limits, %d of %d matching "
                    "strings are outside them, e.g. %s" %
                    (v["cls"], pyquote(v["p"]), d_, v[key + "_nlost"], v[key + "_nlost"], v["nmatch"], ", ".join(lost)))
            report(ctx, acc, "c12-limits-%s-%d" % (label, i), text, payload(i, {"verdict": v}))
    g["unsound_limits"] += nunsound
    # 2. replies that differ from TLC's match sets
    nm = 0
    with open(mism_path) as f:
        for line in f:
            m = json.loads(line)
            nm += 1
            ci = m["case"]
            v = verdict.get(ci)
            if m["user"] == "glob.Match":
                text = ("glob.Match disagrees with the specification: class=%s pattern=%s wrongly-rejected=%d %s "
                        "wrongly-accepted=%d %s" % (m["cls"], m["pattern"], m["nlost"], m["lost"] or [], m["nextra"],
                                                    m["extra"] or []))
            else:
                # the number of matching strings that the RECORDED limits exclude under this user's walk, as judged by TLC
                if m["user"] in ("SEARCH-MATCH-DESC", "SEARCH-MATCH-DESC-COUNT"):
                    excl = v["vdesc_nlost"] if v else 0
                elif m["user"] in DESC_USERS:
                    excl = v["desc_nlost"] if v else 0
                elif m["user"] in INCLUSIVE_USERS:
                    excl = v["inc_nlost"] if v else 0       # these walks also keep a name equal to the upper limit
                else:
                    excl = v["asc_nlost"] if v else 0
                explained = 0 < m["nlost"] == excl
                text = ("range-shortcut user=%s class=%s pattern=%s lost=%d extra=%d order=%s "
                        "explained-by-recorded-limits=%s : reply %s, specification %s; missing %s unexpected %s" %
                        (m["user"], m["cls"], m["pattern"], m["nlost"], m["nextra"], m["order"],
                         "yes" if explained else "no", m["got"], m["want"], m["lost"] or [], m["extra"] or []))
            report(ctx, acc, "c12-glob-%s-%d-%s" % (label, ci, m["user"]), text, payload(ci, {"mismatch": m}))
    if nm != js["mismatches"]:
        raise common.Infra("mismatch file of %s is incomplete" % label)
    ctx.log("glob %s: %d patterns, %d glob.Match pairs, %d server commands, %d limits judged by TLC (%d unsound), "
            "%d replies differ" % (label, len(cases), st["match_pairs"], st["server_cmds"], nv, nunsound, nm))


# ----------------------------------------------------------------------------- queries
def values_slots(ntok):
    slots = []
    for i in range(1, ntok + 1):
        for g in "ps":
            sid = ("o%02d%s" % (i, g)).encode()
            val = ("v%02d" % (ntok + 1 - i)).encode()      # value order is the reverse of the id order
            slots.append("[id |-> %s, val |-> %s]" % (tla_bytes(sid), tla_bytes(val)))
    return "<< " + ",\n ".join(slots) + " >>"


ENUM_SLOTS = [(b"a1", b"b7"), (b"a2", b"a7"), (b"b1", b"a1")]
NTOK = 22          # Len(ValueTable) of spec/FieldOrder.tla (checked by an ASSUME in the wrapper)


def filters_gen(ctx, acc, name, mode, fams, nslots=3, timeout=1800):
    if mode == "values":
        slots = values_slots(NTOK)
        assume = "ASSUME Len(ValueTable) = %d /\\ Len(Slots) = 2 * Len(ValueTable)" % NTOK
    else:
        slots = "<< " + ", ".join("[id |-> %s, val |-> %s]" % (tla_bytes(i), tla_bytes(v)) for i, v in ENUM_SLOTS[:nslots]) + " >>"
        assume = ""
    mc = """---- MODULE MC_%s ----
EXTENDS FiltersGen
MCSlots == %s
MCFams == %s
MCFVals == {"0", "1", "2"}
MCPats == { <<>>, <<42>>, <<97, 42>>, <<42, 49>> }
%s
====
""" % (name, slots, common.tla_set(fams), assume)
    cfg = ("SPECIFICATION Spec\n" +
           cfg_consts(Slots="<- MCSlots", Mode=mode, Fams="<- MCFams", WithDesc=True, EnumFVals="<- MCFVals",
                      EnumPats="<- MCPats", CorruptQ=(1 if corrupt_mode() == "count" else 0)) +
           "INVARIANT FiltersIntersect Sanity\n")
    r = ctx.tlc(name, ["Glob.tla", "FieldOrder.tla", "Filters.tla", "FiltersGen.tla"], mc, cfg, timeout=timeout)
    if not r["ok"]:
        raise common.Infra("the Filters specification violates its own theorem %s (specification error): see %s"
                           % (r["violated"], r["out"]))
    cases = r["dir"] + "/cases.ndjson"
    n = ctx.extract_tr(r["out"], cases)
    if n < 2:
        raise common.Infra("FiltersGen %s produced no datasets" % name)
    acc.states += r["distinct"]
    acc.transitions += r["generated"]
    ctx.log("TLC %s: %d datasets (%s mode, families %s), %.0fs" % (name, n - 1, mode, ",".join(fams), r["wall_s"]))
    return cases, n - 1


def query_round(ctx, acc, cases_path, label, par=8):
    d = os.path.dirname(cases_path)
    mism_path = os.path.join(d, "mismatches.ndjson")
    rc, js, err = ctx.harness(["filt-query", "-in", cases_path, "-out", mism_path, "-par", str(par)], timeout=7200)
    st = js["stats"]
    header = None
    datasets = []
    with open(cases_path) as f:
        for line in f:
            if not line.strip():
                continue
            if header is None:
                header = json.loads(line)          # printed first (ASSUME)
                if header.get("kind") != "header":
                    raise common.Infra("no header in " + cases_path)
            else:
                datasets.append(line.rstrip("\n"))
    if header is None:
        raise common.Infra("no header in " + cases_path)
    nq = len(header["queries"])
    if st["datasets"] != len(datasets) or st["queries"] != nq * len(datasets) \
            or st["ids_replies_compared"] != st["queries"] or st["count_replies_compared"] != st["queries"]:
        raise common.Infra("filt-query %s compared %s, expected %d datasets x %d queries" % (label, st, len(datasets), nq))
    q = acc.query
    q["datasets"] += st["datasets"]
    q["queries"] += st["queries"]
    q["server_cmds"] += st["server_cmds"]
    q["ids_replies_compared"] += st["ids_replies_compared"]
    q["count_replies_compared"] += st["count_replies_compared"]
    for k in ("by_family", "by_filter"):
        for a, b in st[k].items():
            q[k][a] = q[k].get(a, 0) + b
    acc.cases += st["queries"]
    nm = 0
    sample_done = False
    with open(mism_path) as f:
        for line in f:
            m = json.loads(line)
            nm += 1
            ds = json.loads(datasets[m["dataset"]])
            hq = header["queries"][m["query"]]
            everything = m["match"] in ("none", "star")
            got_all = m["out"] == "COUNT" and m["got"] == ":%d" % m["nall"]
            text = ("query cmd=%s out=%s glob-everything=%s where=%s wherein-or-whereeval=%s desc=%s : reply %s, "
                    "specification %s (lost=%d extra=%d order=%s) got-is-all-objects=%s objects-in-collection=%d "
                    "command %s" %
                    (m["fam"].upper(), m["out"], "yes" if everything else "no", m["where"],
                     "yes" if (m["wherein"] > 0 or m["whereeval"] != "none") else "no", m["desc"], m["got"], m["want"],
                     m["nlost"], m["nextra"], m["order"], "yes" if got_all else "no", m["nall"], " ".join(m["cmd"])))
            one_header = dict(header)
            one_header["queries"] = [hq]
            one_ds = dict(ds)
            one_ds["r"] = [ds["r"][m["query"]]]
            report(ctx, acc, "c12-query-%s-%d-%d-%s" % (label, m["dataset"], m["query"], m["out"]), text,
                   {"kind": "query", "header": one_header, "dataset": one_ds, "mismatch": m})
    if nm != js["mismatches"]:
        raise common.Infra("mismatch file of %s is incomplete" % label)
    if not sample_done and len(acc.samples) < 10 and datasets:
        ds = json.loads(datasets[len(datasets) // 2])
        j = nq // 2
        acc.samples.append({"query": header["queries"][j]["q"], "dataset_objects": ds["objs"][:6],
                            "expected": ds["r"][j]})
    ctx.log("queries %s: %d datasets x %d queries, %d server commands, %d IDS + %d COUNT replies compared, %d differ"
            % (label, st["datasets"], nq, st["server_cmds"], st["ids_replies_compared"], st["count_replies_compared"], nm))


# ----------------------------------------------------------------------------- main
def run(ctx):
    if ctx.replay:
        return run_replay(ctx)
    acc = Acc()
    par = min(common.NCPU, ctx.pick(8, 12))
    if corrupt_mode():
        ctx.log("SELF-TEST: the specification output is deliberately corrupted (%s); VIOLATION lines are expected" % corrupt_mode())

    # design: limits as coded vs RangeSound (named deviation)
    glob_design_deviation(ctx, acc)

    # glob: exhaustive byte patterns
    cases, n = glob_gen(ctx, acc, "globbytes", "bytes", 0, ctx.pick(3, 4), 3, timeout=ctx.pick(600, 2400))
    glob_round(ctx, acc, cases, "bytes", server=True, par=par)
    # glob: whole-term patterns (ranges, negation, escapes inside classes)
    cases, n = glob_gen(ctx, acc, "globterms", "terms", 1, ctx.pick(2, 3), 3, timeout=ctx.pick(600, 2400))
    glob_round(ctx, acc, cases, "terms", server=True, par=par)
    if not ctx.quick:
        # deeper strings (star back-tracking), in-package only: glob.Match and glob.Parse
        cases, n = glob_gen(ctx, acc, "globdeep", "bytes", 0, 4, 4, timeout=3000)
        glob_round(ctx, acc, cases, "deep", server=False, par=par)
        cases, n = glob_gen(ctx, acc, "globdeept", "terms", 1, 2, 4, timeout=2400)
        glob_round(ctx, acc, cases, "deepterms", server=False, par=par)

    # field filters over every value kind
    cases, n = filters_gen(ctx, acc, "fvalues", "values",
                           ctx.pick(["scan", "search", "within"], ["scan", "search", "within", "intersects", "nearby"]),
                           timeout=ctx.pick(900, 2400))
    query_round(ctx, acc, cases, "values", par=par)
    # every query combination on all small datasets (COUNT = IDS, DESC = reverse, mixing strings and geometries)
    cases, n = filters_gen(ctx, acc, "fenum", "enum", ["scan", "search", "within", "intersects", "nearby"],
                           nslots=ctx.pick(2, 3), timeout=ctx.pick(900, 2400))
    query_round(ctx, acc, cases, "enum", par=par)

    # vacuity
    g, q = acc.glob, acc.query
    for cls in ("plain", "meta-first", "escape-prefix", "ff-carry", "malformed"):
        if not g["pattern_classes"].get(cls):
            raise common.Infra("no generated pattern of class %s (vacuous)" % cls)
    for k in ("where-range", "where-op", "where-expr", "wherein", "whereeval", "desc", "match-glob", "match-star"):
        if not q["by_filter"].get(k):
            raise common.Infra("no generated query with %s (vacuous)" % k)
    for fam in ("scan", "search", "within", "intersects", "nearby"):
        if not q["by_family"].get(fam):
            raise common.Infra("no generated query of family %s (vacuous)" % fam)
    if g["match_pairs"] == 0 or q["queries"] == 0:
        raise common.Infra("nothing compared (vacuous)")
    if acc.violations_suppressed:
        ctx.log("%d further violations not written as replay files (cap %d)" % (acc.violations_suppressed, MAX_VIOLATIONS_REPORTED))

    common.write_evidence(ctx, "model_checking", {
        "states": acc.states,
        "transitions": acc.transitions,
        "traces_validated_against_impl": acc.cases,
        "samples": acc.samples,
        "glob": g,
        "queries": q,
        "disagreements_reported": acc.disagreements,
        "violations_not_written": acc.violations_suppressed,
        "design_level": acc.design,
        "exhaustive": True,
        "explanation": "TLC enumerated every byte pattern of the bound (and every concatenation of whole glob terms) with "
                       "its complete match set over all strings of the bound; each was compared with glob.Match on "
                       "every pair and with the replies of every range-shortcut user on servers holding the whole "
                       "universe; glob.Parse's limits were recorded and judged by TLC against RangeSound; every "
                       "WHERE/WHEREIN filter over the value table and every query combination over all small datasets "
                       "was compared as IDS and as COUNT.",
    }, [
        "byte alphabet 00 2a 2d 3f 5b 5c 5d 5e 61 62 ff: no valid multi-byte UTF-8 sequence occurs (the matcher decodes runes)",
        "a byte >= 0x80 as a class member makes the pattern malformed (as coded in match.go getEsc; the statement is silent)",
        "NaN is neither less nor greater than any number (as coded; the statement is silent): WHERE f 1 1 keeps NaN",
        "WHERE bounds are lower-cased by the server; bound tokens whose kind would change by lower-casing are not generated",
        "the expression form WHERE \"f op x\" is generated for numeric field values only (its comparison is JavaScript-like)",
        "spatial families (WITHIN/INTERSECTS/NEARBY) are compared as sets (their walk order is not part of the statement); "
        "query area covers every object",
        "the empty pattern and the empty name cannot be sent to the server: checked in-package only",
    ])


def run_replay(ctx):
    acc = Acc()
    p = json.load(open(ctx.replay))
    d = os.path.join(ctx.scratch, "replay")
    os.makedirs(d, exist_ok=True)
    cases = os.path.join(d, "cases.ndjson")
    if p.get("kind") == "glob":
        with open(cases, "w") as f:
            f.write(p["universe"] + "\n" + p["case"] + "\n")
        glob_round(ctx, acc, cases, "replay", server=p.get("server", True), par=1)
    elif p.get("kind") == "query":
        with open(cases, "w") as f:
            f.write(json.dumps(p["header"]) + "\n" + json.dumps(p["dataset"]) + "\n")
        query_round(ctx, acc, cases, "replay", par=1)
    else:
        raise common.Infra("unknown replay file kind %r" % p.get("kind"))
    ctx.log("replay: %d disagreement(s)" % acc.disagreements)
