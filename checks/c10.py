"""C10  Notifications and pub/sub: nothing lost, nothing duplicated, in write order.

Specification: spec/Notify.tla - the write (queueHooks: publish the channel messages, ONE transaction into the on-disk
queue, signal the hooks, live stack), the webhook sender of a hook (manager / proc: take this hook's entries in index
order in one transaction, send one by one to the hook's endpoints in order, on failure re-insert the unsent tail under
the same keys with the remaining TTL, sleep, retry; signal / wait), pub/sub (register then acknowledge; Publish =
snapshot of the targets under the registry lock, then append target by target; one writer goroutine per subscriber),
live fences (register then +OK; stack -> buffers -> evaluation), with every plausible way to get it wrong as a named
Variant.  spec/NotifyJudge.tla states what a receiver's stream must look like on client-observable relations only.

TLC (design): the intended design satisfies HookInOrderNoDup, HookNothingLost, HookNoDropInTime, liveness
HookEventuallyAll (weak fairness, no state constraint), SubscriberSafe, AckedSubscriberGetsIt, LiveSafe,
LiveAckedGetsIt, EventuallyQuiescent on exhaustive small configurations; every broken variant is refuted; every action
is covered (-coverage 1).

Binding, model -> code: spec/NotifySim.tla prints random behaviours of the webhook path as failure scripts (writes,
status changes, every send attempt with TLC's message and outcome refuse / 5xx / hang, spurious signals, ticks).
`t38conf notify-replay` executes each script against a real server whose hooks point to endpoints inside the harness:
a request is held until the script reaches its attempt, compared with TLC's message and endpoint, answered as
scripted; after recovery and quiescence (all of TLC's messages there, two rounds of sentinel writes, empty queue) the
endpoint of every hook must have accepted exactly TLC's hgen minus dropped - same order, same multiplicity.

Binding, code -> model: `t38conf notify-conc` runs concurrent writers / publishers / subscribers (exact and pattern,
subscribing and unsubscribing on the fly) / live fences / webhooks with an endpoint that fails in random windows,
records tickets, streams, requests and the order of the SETs in appendonly.aof; spec/NotifyTrace.tla judges every
stream with the operators of NotifyJudge.

Self-tests: corrupted expected values (model -> code) and corrupted recorded streams (code -> model) must be noticed.
"""
import concurrent.futures as cf
import json
import os
import random
import re
import time

from . import common

MODS = ["Notify.tla", "NotifyJudge.tla"]
PAR = str(max(4, min(common.NCPU, 12)))

# ------------------------------------------------------------------------------------------------ constants
DEFAULTS = dict(
    HookKey="<<>>", HookKinds="<<>>", HookEps="<<>>", NEps=0, FailModes='{"5xx"}', MaxFlips=0, MaxPokes=0, MaxReplace=0,
    TTL=3, MaxClock=0, ChanKey="<<>>", ChanKinds="<<>>", NPlain=0, PatMatch="<<>>", SubProg="<<>>", Prog="<<>>", NKeys=1,
    LiveKey="<<>>", LiveKinds="<<>>", Variant='"intended"', Record="FALSE")


def SET(k):
    return '[op |-> "set", n |-> %d]' % k


def PUB(ch):
    return '[op |-> "pub", n |-> %d]' % ch


def SUB(kind, n):
    return '[op |-> "sub", kind |-> "%s", n |-> %d]' % (kind, n)


def UNSUB(kind, n):
    return '[op |-> "unsub", kind |-> "%s", n |-> %d]' % (kind, n)


def seq(*xs):
    return "<<" + ", ".join(xs) + ">>"


def mc(name, base, over, extra_consts=()):
    c = dict(DEFAULTS)
    c.update(over)
    defs = "\n".join("MC%s == %s" % (k, v) for k, v in c.items())
    module = "---- MODULE MC_%s ----\nEXTENDS %s\n%s\n====\n" % (name, base, defs)
    consts = "CONSTANTS\n" + "\n".join(" %s <- MC%s" % (k, k) for k in c) + "\n" + "".join(" %s\n" % x for x in extra_consts)
    return module, consts


HOOK_INV = "INVARIANT TypeOK HookInOrderNoDup HookNothingLost HookNoDropInTime HookGenInWriteOrder\nPROPERTY HookEventuallyAll\n"
SUB_INV = "INVARIANT TypeOK SubscriberSafe AckedSubscriberGetsIt LiveSafe LiveAckedGetsIt\nPROPERTY EventuallyQuiescent\n"

HOOK1 = dict(HookKey="<<1>>", HookKinds="<<<<3, 4>>>>", HookEps="<<<<1>>>>", NEps=1, MaxFlips=3, Prog=seq(seq(SET(1), SET(1))))


def design_jobs(ctx):
    """(name, constants, properties, expected violation or None, timeout)"""
    jobs = []
    # ---- webhook path
    jobs.append(("hook", HOOK1, HOOK_INV, None))
    jobs.append(("hook_poke_failover", dict(HOOK1, HookKinds="<<<<4>>>>", HookEps="<<<<1, 2>>>>", NEps=2, MaxFlips=2, MaxPokes=1),
                 HOOK_INV, None))
    jobs.append(("hook_ttl", dict(HOOK1, HookKinds="<<<<4>>>>", MaxFlips=2, MaxClock=2, TTL=2), HOOK_INV, None))
    for v, what in (("reinsert_skips_failed", "HookNothingLost"), ("reinsert_whole_batch", "HookInOrderNoDup"),
                    ("reinsert_new_index", "HookInOrderNoDup"), ("no_signal_recheck", "temporal"),
                    ("signal_before_commit", "temporal")):
        jobs.append(("hookv_" + v, dict(HOOK1, Variant='"%s"' % v), HOOK_INV, what))
    # a SETHOOK redefinition while the old sender is at work: the new manager is opened when the old one has ended;
    # D14 (the code before the repair): both work at once - order broken, re-inserted messages stranded
    jobs.append(("hook_redefined", dict(HOOK1, HookKinds="<<<<4>>>>", MaxReplace=1, MaxFlips=2), HOOK_INV, None))
    jobs.append(("hookv_redefinition_overlaps", dict(HOOK1, MaxReplace=1, Variant='"redefinition_overlaps"'), HOOK_INV, "HookInOrderNoDup"))
    if not ctx.quick:
        jobs.append(("hookv_redefinition_strands", dict(HOOK1, MaxReplace=1, MaxFlips=2, Variant='"redefinition_overlaps"'),
                     "PROPERTY HookEventuallyAll\n", "temporal"))
    # ---- pub/sub
    S1, P1 = seq(SUB("ch", 1)), seq(SUB("pat", 1))
    SU = seq(SUB("ch", 1), UNSUB("ch", 1))
    SB = seq(SUB("ch", 1), SUB("pat", 1))
    subs = {
        "sub_2pub": dict(NPlain=1, PatMatch="<<{1}>>", SubProg=seq(S1), Prog=seq(seq(PUB(1), PUB(1)), seq(PUB(1), PUB(1)))),
        "sub_unsub": dict(ChanKey="<<1>>", ChanKinds="<<<<4>>>>", PatMatch="<<{1}>>", SubProg=seq(SU),
                          Prog=seq(seq(PUB(1), SET(1)), seq(SET(1)))),
        "sub_both": dict(ChanKey="<<1>>", ChanKinds="<<<<4>>>>", PatMatch="<<{1}>>", SubProg=seq(SB), Prog=seq(seq(PUB(1)), seq(SET(1)))),
        "sub_sorted": dict(ChanKey="<<1, 1>>", ChanKinds="<<<<3, 4>>, <<4>>>>", PatMatch="<<{1, 2}>>", SubProg=seq(P1),
                           Prog=seq(seq(SET(1)), seq(SET(1)))),
        "sub_two": dict(ChanKey="<<1>>", ChanKinds="<<<<4>>>>", PatMatch="<<{1}>>", SubProg=seq(S1, P1), Prog=seq(seq(PUB(1)), seq(SET(1)))),
    }
    for n, c in subs.items():
        if n not in ("sub_two", "sub_both") or not ctx.quick:
            jobs.append((n, c, SUB_INV, None))
    for n in ("sub_2pub",) if ctx.quick else ("sub_2pub", "sub_both"):
        jobs.append((n + "_v_ack", dict(subs[n], Variant='"ack_before_register"'), SUB_INV, "AckedSubscriberGetsIt"))
        jobs.append((n + "_v_writer", dict(subs[n], Variant='"unordered_writer"'), SUB_INV, "SubscriberSafe"))
    # ---- live fences
    live = dict(Prog=seq(seq(SET(1), SET(1)), seq(SET(1))), LiveKey="<<1, 1>>", LiveKinds="<<<<3, 4>>, <<4>>>>")
    jobs.append(("live", live, SUB_INV, None))
    jobs.append(("live_v_lifo", dict(live, Variant='"lifo_live_stack"'), SUB_INV, "LiveSafe"))
    # documented nondeterminism of the code (not demanded by C10): an event older than the fence's request can arrive
    jobs.append(("live_early", live, "INVARIANT LiveNothingEarlier\n", "LiveNothingEarlier"))
    if not ctx.quick:
        jobs.append(("hook_two", dict(HookKey="<<1, 1>>", HookKinds="<<<<4>>, <<3, 4>>>>", HookEps="<<<<1>>, <<1, 2>>>>", NEps=2,
                                      MaxFlips=2, MaxPokes=1, Prog=seq(seq(SET(1), SET(1)))), HOOK_INV, None))
        jobs.append(("hook_3w", dict(HOOK1, Prog=seq(seq(SET(1), SET(1), SET(1))), MaxFlips=4), HOOK_INV, None))
        jobs.append(("hook_ttl2", dict(HOOK1, MaxFlips=2, MaxClock=4, TTL=3), HOOK_INV, None))
        jobs.append(("hook_ttl3", dict(HOOK1, HookKinds="<<<<4>>>>", MaxFlips=2, MaxClock=3, TTL=2), HOOK_INV, None))
        jobs.append(("sub_big", dict(ChanKey="<<1, 1>>", ChanKinds="<<<<3, 4>>, <<4>>>>", PatMatch="<<{1, 2}>>", SubProg=seq(P1, S1),
                                     Prog=seq(seq(SET(1)), seq(SET(1)))), SUB_INV, None))
        jobs.append(("sub_big2", dict(ChanKey="<<1>>", ChanKinds="<<<<4>>>>", PatMatch="<<{1}>>", SubProg=seq(S1, P1),
                                      Prog=seq(seq(PUB(1), PUB(1)), seq(SET(1)))), SUB_INV, None))
    return jobs


VARIANT_ONLY = {"CSignalEarly", "CQueueLate", "SAckFirst", "SRegLate"}
ACTIONS = {"PStart", "PApp", "WStart", "GStart", "CQueue", "CSignal", "CLive", "HTop", "HTake", "HTry", "HSent", "HReinsert",
           "HSleep", "HCheck", "HOpen", "Replace", "Flip", "Poke", "Tick", "Expire", "SReg", "SRecv", "STake", "SWrite", "LReg", "LRecv", "LDist",
           "LEval"} | VARIANT_ONLY


def coverage_of(out):
    cov = {}
    with open(out, errors="replace") as f:
        for line in f:
            m = re.match(r"<(\w+) line \d+, col \d+ to line \d+, col \d+ of module Notify>: (\d+):(\d+)", line)
            if m:
                cov[m.group(1)] = cov.get(m.group(1), 0) + int(m.group(3))
    return cov


def design(ctx):
    jobs = design_jobs(ctx)
    taken = {}
    res = {}

    def one(job):
        name, consts, props, expect = job
        module, cc = mc(name, "Notify", consts)
        cfg = "SPECIFICATION Spec\n" + cc + props
        r = ctx.tlc(name, MODS, module, cfg, workers=ctx.pick(2, 4), timeout=ctx.pick(400, 2400),
                    expect_violation=expect is not None, extra=("-coverage", "1"))
        if r["violated"] is None:
            # this TLC words a liveness counterexample differently from what common.tlc looks for
            with open(r["out"], errors="replace") as f:
                for line in f:
                    if re.match(r"Error: Temporal propert\S+ .*violated", line):
                        r["violated"], r["ok"] = "temporal", False
        return job, r

    with cf.ThreadPoolExecutor(max_workers=ctx.pick(4, 4)) as ex:
        for job, r in ex.map(one, jobs):
            name, consts, props, expect = job
            res[name] = r
            if expect is None:
                if not r["ok"]:
                    raise common.Infra("Notify (%s): the intended design violates %s - specification error, see %s"
                                       % (name, r["violated"], r["out"]))
                for a, n in coverage_of(r["out"]).items():
                    taken[a] = taken.get(a, 0) + n
            else:
                if r["violated"] is None:
                    raise common.Infra("Notify (%s): the broken variant is NOT refuted (vacuous design model)" % name)
                if expect != "temporal" and r["violated"] != expect:
                    raise common.Infra("Notify (%s): refuted by %s, expected %s" % (name, r["violated"], expect))
                # actions that exist only in a variant are counted in the run of that variant
                for a, n in coverage_of(r["out"]).items():
                    if a in VARIANT_ONLY:
                        taken[a] = taken.get(a, 0) + n
    zero = sorted(a for a in ACTIONS if taken.get(a, 0) == 0)
    if zero:
        raise common.Infra("actions of Notify never taken by any design run (vacuous): %s" % zero)
    intended = [n for n, c, p, e in jobs if e is None]
    refuted = {n: res[n]["violated"] for n, c, p, e in jobs if e is not None}
    ctx.log("TLC Notify: %d intended configurations hold (%d distinct states, liveness under weak fairness included); "
            "%d broken variants refuted: %s" % (len(intended), sum(res[n]["distinct"] for n in intended), len(refuted),
                                                ", ".join("%s->%s" % kv for kv in sorted(refuted.items()))))
    return res, intended, refuted, taken


# ------------------------------------------------------------------------------------------------ model -> code
def sim_configs(ctx):
    w4 = seq(seq(*[SET(1)] * 4))
    cfgs = [
        ("one", dict(HookKey="<<1>>", HookKinds="<<<<3, 4>>>>", HookEps="<<<<1>>>>", NEps=1, FailModes='{"refuse", "5xx"}', MaxFlips=4,
                     MaxPokes=1, Prog=w4)),
        ("two", dict(HookKey="<<1, 1>>", HookKinds="<<<<4>>, <<3, 4>>>>", HookEps="<<<<1>>, <<2, 1>>>>", NEps=2,
                     FailModes='{"refuse", "5xx"}', MaxFlips=5, MaxPokes=1, Prog=seq(seq(*[SET(1)] * 5)))),
        ("keys", dict(HookKey="<<1, 2>>", HookKinds="<<<<3, 4>>, <<4>>>>", HookEps="<<<<1>>, <<2>>>>", NEps=2, NKeys=2,
                      FailModes='{"5xx", "refuse"}', MaxFlips=4, Prog=seq(seq(*[SET(0)] * 5)))),
        # hang (no answer until the client's 5 s timeout) only with a single hook: while the harness waits for the retry after
        # a hang, requests of other hooks would be held beyond their own timeout
        ("hang", dict(HookKey="<<1>>", HookKinds="<<<<3, 4>>>>", HookEps="<<<<1, 2>>>>", NEps=2, FailModes='{"hang", "5xx"}', MaxFlips=3,
                      Prog=seq(seq(*[SET(1)] * 3)))),
    ]
    cfgs.append(("redef", dict(HookKey="<<1>>", HookKinds="<<<<4>>>>", HookEps="<<<<1>>>>", NEps=1, FailModes='{"refuse", "5xx"}', MaxFlips=3,
                               MaxReplace=1, Prog=w4)))
    if not ctx.quick:
        cfgs.append(("ttl", dict(HookKey="<<1>>", HookKinds="<<<<4>>>>", HookEps="<<<<1>>>>", NEps=1, FailModes='{"refuse"}', MaxFlips=3,
                                 TTL=3, MaxClock=4, Prog=seq(seq(*[SET(1)] * 4)))))
        cfgs.append(("three", dict(HookKey="<<1, 1, 2>>", HookKinds="<<<<4>>, <<3, 4>>, <<3, 4>>>>", HookEps="<<<<1>>, <<2, 1>>, <<2>>>>",
                                   NEps=2, NKeys=2, FailModes='{"refuse", "5xx"}', MaxFlips=6, MaxPokes=2,
                                   Prog=seq(seq(*[SET(0)] * 7)))))
    return cfgs


def simulate(ctx, name, consts, num, check_invariants=True):
    module, cc = mc("sim_" + name, "NotifySim", dict(consts, Record="TRUE"), extra_consts=("EnvOneIn = 3", "EndOneIn = 6"))
    cfg = "SPECIFICATION SimSpec\n" + cc + ("INVARIANT HookInOrderNoDup HookNothingLost HookGenInWriteOrder\n" if check_invariants
                                            else "INVARIANT HookNothingLost HookGenInWriteOrder\n")
    r = ctx.tlc("sim_" + name, MODS + ["NotifySim.tla"], module, cfg, workers=1, simulate=num, depth=500, timeout=900)
    if not r["ok"]:
        raise common.Infra("NotifySim %s violates %s: %s" % (name, r["violated"], r["out"]))
    beh = os.path.join(r["dir"], "behaviours.ndjson")
    n = ctx.extract_tr(r["out"], beh)
    os.remove(r["out"])
    return r, beh, n


def features(b):
    f = set()
    left, lastre = {}, {}
    rounds = hangs = 0
    lasth = None
    for e in b["h"]:
        a = e["a"]
        if a == "try":
            h = e["h"]
            f.add("res:" + e["res"])
            if lasth is not None and lasth != h and any(v > 0 for k, v in left.items() if k != h):
                f.add("two_senders_interleaved")
            lasth = h
            if e["res"] != "up":
                f.add("fail_first_of_batch" if e["pos"] == 1 else "fail_mid_batch")
                hangs += e["res"] == "hang"
            else:
                left[h] = left.get(h, 0) - 1
                if e["e"] != b["hooks"][h - 1]["eps"][0]:
                    f.add("failover_delivery")
                if e["size"] >= 3:
                    f.add("batch>=3")
        elif a == "reinsert":
            rounds += 1
            left[e["h"]] = 0
            lastre[e["h"]] = e["n"]
            if e["dropped"]:
                f.add("dropped_at_reinsert")
        elif a == "take":
            left[e["h"]] = e["n"]
            if e["h"] in lastre and e["n"] > lastre.pop(e["h"]):
                f.add("new_messages_join_reinserted")
        elif a == "write":
            if any(v > 0 for v in left.values()):
                f.add("write_while_sender_busy")
        elif a in ("poke", "tick", "replace"):
            f.add(a)
            if a == "replace" and left.get(e["h"], 0) > 0:
                f.add("redefined_while_a_request_is_in_flight")
    if any(len(b["gen"][i]) != len(b["deliv"][i]) for i in range(len(b["gen"]))):
        f.add("undelivered_when_script_ends")
    if any(b["dropped"][i] for i in range(len(b["dropped"]))):
        f.add("dropped_by_retention")
    cost = 0.5 * rounds + 5.5 * hangs + 12.0 * b.get("clock", 0)
    return f, cost, hangs


REQUIRED = ["res:up", "res:refuse", "res:5xx", "fail_first_of_batch", "fail_mid_batch", "failover_delivery", "write_while_sender_busy",
            "new_messages_join_reinserted", "poke", "undelivered_when_script_ends", "two_senders_interleaved", "batch>=3",
            "redefined_while_a_request_is_in_flight"]


def select(ctx, files, want, max_cost, max_hang_behaviours, required):
    rng = random.Random(ctx.seed * 7907 + 3)
    cands = []
    for name, path in files:
        with open(path) as f:
            for line in f:
                if line.strip():
                    b = json.loads(line)
                    ft, cost, hangs = features(b)
                    if cost <= max_cost or (b.get("maxclock", 0) > 0 and cost - 12.0 * b.get("clock", 0) <= 6):
                        cands.append((line.strip(), ft, cost, hangs, name))
    rng.shuffle(cands)
    chosen, covered, nhang = [], set(), 0
    need = set(required)
    pool = list(cands)
    while need - covered and pool:
        best = max(pool, key=lambda c: (len((c[1] & need) - covered), -c[2]))
        if not (best[1] & need) - covered:
            break
        pool.remove(best)
        if best[3] and nhang >= max_hang_behaviours:
            continue
        nhang += 1 if best[3] else 0
        chosen.append(best)
        covered |= best[1]
    missing = sorted(need - covered)
    if missing:
        raise common.Infra("the generated behaviours never show %s (vacuous generator)" % missing)
    per = {}
    for c in pool:
        if len(chosen) >= want:
            break
        if c[3]:
            if nhang >= max_hang_behaviours:
                continue
            nhang += 1
        # keep the configurations balanced
        if per.get(c[4], 0) > want / max(1, len(files)) + 2:
            continue
        per[c[4]] = per.get(c[4], 0) + 1
        chosen.append(c)
        covered |= c[1]
    return chosen, covered


def replay(ctx, lines, label, report=True, extra=(), par=PAR):
    beh = os.path.join(ctx.scratch, "replay_%s.ndjson" % label)
    with open(beh, "w") as f:
        for l in lines:
            f.write(l + "\n")
    rc, js, err = ctx.harness(["notify-replay", "-in", beh, "-par", par, "-dir", os.path.join(ctx.scratch, "srv_" + label)] + list(extra),
                              timeout=3000)
    st = js["stats"]
    if report:
        seen, per_class = set(), {}
        for m in js["mismatches"] or []:
            key = (m["behaviour"], m["class"])
            if key in seen or per_class.get(m["class"], 0) >= 3:
                continue
            seen.add(key)
            per_class[m["class"]] = per_class.get(m["class"], 0) + 1
            text = "webhook delivery disagrees with the specification [%s] in behaviour %d (%s): %s" % (
                m["class"], m["behaviour"], label, m["text"])
            common.report(ctx, "c10-%s-%s-b%d-h%d" % (label, m["class"], m["behaviour"], m["hook"]), text,
                          {"kind": "notify-behaviour", "behaviour": lines[m["behaviour"]], "mismatch": m})
    return st, js


# ------------------------------------------------------------------------------------------------ code -> model
TRACE_CFG = "SPECIFICATION Spec\nPOSTCONDITION Consumed\n"


def judge(ctx, name, trace_path):
    """Run NotifyTrace over a trace file; returns (summary, rejected list)."""
    tdir = os.path.join(ctx.scratch, "trace_" + name)
    os.makedirs(tdir, exist_ok=True)
    tp = os.path.join(tdir, "trace.ndjson")
    if os.path.abspath(trace_path) != tp:
        with open(trace_path) as fi, open(tp, "w") as fo:
            fo.write(fi.read())
    r = ctx.tlc("trace_" + name, ["NotifyJudge.tla", "NotifyTrace.tla"], "---- MODULE MC_trace_%s ----\nEXTENDS NotifyTrace\n====\n" % name,
                TRACE_CFG, workers=1, timeout=ctx.pick(900, 3000), files=[tp])
    if not r["ok"]:
        raise common.Infra("NotifyTrace did not consume the trace: %s" % r["out"])
    rej, summ = [], None
    with open(r["out"], errors="replace") as f:
        for line in f:
            if line.startswith('<<"REJ", '):
                rej.append(json.loads(json.loads(line.rstrip("\n")[len('<<"REJ", '):-2])))
            elif line.startswith('<<"SUM", '):
                summ = json.loads(json.loads(line.rstrip("\n")[len('<<"SUM", '):-2]))
    if summ is None:
        raise common.Infra("NotifyTrace printed no summary: %s" % r["out"])
    return summ, rej, r


def harness_or_crash(ctx, args, label, timeout=3000):
    """Run a harness driver whose servers live in its own process: a panic inside tile38 kills the driver.  That is
    not an infrastructure problem but the server dying while it delivers notifications."""
    try:
        return ctx.harness(args, timeout=timeout)
    except common.Infra as e:
        msg = str(e)
        if "panic:" in msg and "tile38/internal/" in msg:
            first = [l for l in msg.split("\n") if l.startswith("panic:") or "tile38/internal/" in l][:4]
            common.report(ctx, "c10-%s-server-died" % label,
                          "the server process died while delivering notifications (%s): %s" % (label, " | ".join(x.strip() for x in first)),
                          {"kind": "notify-crash", "args": list(args)})
        raise


def record(ctx, label, runs, seed, extra=()):
    out = os.path.join(ctx.scratch, "conc_%s.ndjson" % label)
    args = ["notify-conc", "-out", out, "-runs", str(runs), "-par", ctx.pick("4", "6"), "-seed", str(seed), "-patience", "60s",
            "-dir", os.path.join(ctx.scratch, "csrv_" + label)] + list(extra)
    rc, js, err = harness_or_crash(ctx, args, label)
    return out, js, args


def live_burst(ctx):
    """Several live fences on ONE key and a pipelined burst of writes: every fence must get every event exactly once
    (the count is LiveAckedGetsIt / LiveSafe for the simplest history: all fences acknowledged before the first write)."""
    lives, n = 4, ctx.pick(6000, 40000)
    rc, js, err = harness_or_crash(ctx, ["notify-liverace", "-lives", str(lives), "-n", str(n)], "live-burst", timeout=600)
    if js["events_received"] != lives * n:
        common.report(ctx, "c10-live-burst-count", "live fences on one key: %d events received for %d fences x %d writes"
                      % (js["events_received"], lives, n), {"kind": "notify-crash", "args": ["notify-liverace", "-lives", str(lives), "-n", str(n)]})
    return js["events_received"]


def concurrent_legs(ctx, legs):
    """Record every leg, judge all recorded runs - and, behind them, deliberately corrupted copies (self-test of
    NotifyTrace: every corrupted stream must be rejected) - in ONE TLC run."""
    recs = []
    for label, runs, seed, extra in legs:
        out, js, args = record(ctx, label, runs, seed, extra)
        if js["runs"] == 0:
            raise common.Infra("no concurrent run could be recorded (%d too slow): %s" % (js["not_recorded_slow"], label))
        recs.append((label, out, js, args))
    lines, origin = [], []
    for label, out, js, args in recs:
        for l in open(out).read().split("\n"):
            if l.strip():
                lines.append(l)
                origin.append((label, args))
    nreal = len(lines)
    rng = random.Random(ctx.seed * 17 + 5)
    muts = []
    order = list(range(nreal))
    rng.shuffle(order)
    for i in order:
        muts += corrupt_trace(lines[i], rng)
        if len(muts) >= ctx.pick(12, 60):
            break
    if len(muts) < 4:
        raise common.Infra("self-test could not build corrupted traces")
    allp = os.path.join(ctx.scratch, "all_traces.ndjson")
    with open(allp, "w") as f:
        for l in lines:
            f.write(l + "\n")
        for m in muts:
            f.write(m[0] + "\n")
    summ, rej, r = judge(ctx, "conc", allp)
    real_rej = [x for x in rej if x["line"] <= nreal]
    hit = {(x["line"] - nreal, x["kind"], x["r"]) for x in rej if x["line"] > nreal}
    missed = [m[1] for i, m in enumerate(muts) if (i + 1, m[2], m[3]) not in hit]
    ctx.log("self-test (code -> model): %d corrupted streams, %d rejected by NotifyTrace" % (len(muts), len(muts) - len(missed)))
    if missed:
        raise common.Infra("NotifyTrace is vacuous: corrupted streams accepted: %s" % missed[:3])
    seen = set()
    for x in real_rej:
        key = (x["kind"], tuple(sorted(x["why"])))
        if key in seen:
            continue
        seen.add(key)
        label, args = origin[x["line"] - 1]
        text = "recorded %s stream rejected by NotifyTrace: %s (run %s, receiver %d)" % (
            {"sub": "subscriber", "hook": "webhook", "live": "live fence"}[x["kind"]], ", ".join(sorted(x["why"])), x["id"], x["r"])
        common.report(ctx, "c10-%s-%s-%s" % (label, x["kind"], "-".join(sorted(x["why"]))[:60]), text,
                      {"kind": "notify-trace", "line": lines[x["line"] - 1], "rejected": x, "args": args})
    # the corrupted copies carry as many streams / items again as their originals: count the real ones only
    nstreams = sum(len(json.loads(l)["subs"]) + len(json.loads(l)["hooks"]) + len(json.loads(l)["lives"]) for l in lines)
    nitems = sum(sum(len(x["items"]) for x in json.loads(l)["subs"] + json.loads(l)["hooks"] + json.loads(l)["lives"]) for l in lines)
    return dict(streams=nstreams, items=nitems, rejected=len(real_rej)), recs, len(muts), lines, r


# ------------------------------------------------------------------------------------------------ self-tests
def corrupt_expected(line, rng):
    """Corrupt ONE expected value of a behaviour (TLC's hgen); returns (new line, description) or None."""
    b = json.loads(line)
    hs = [h for h in range(len(b["gen"])) if len(b["gen"][h]) >= 2]
    if not hs:
        return None
    h = rng.choice(hs)
    g = b["gen"][h]
    kind = rng.choice(["drop", "swap", "add"])
    if kind == "drop":
        i = rng.randrange(len(g))
        x = g.pop(i)
        d = "expected message %s of hook %d removed" % (x, h + 1)
    elif kind == "swap":
        i = rng.randrange(len(g) - 1)
        g[i], g[i + 1] = g[i + 1], g[i]
        d = "expected messages %d and %d of hook %d swapped" % (i + 1, i + 2, h + 1)
    else:
        g.append({"w": 99, "d": 4})
        d = "spurious expected message appended to hook %d" % (h + 1)
    return json.dumps(b), d


def selftest_replay(ctx, chosen, want):
    rng = random.Random(ctx.seed * 31 + 7)
    cheap = sorted(chosen, key=lambda c: c[2])[:max(want * 2, 8)]
    lines, descr = [], []
    for c in cheap:
        x = corrupt_expected(c[0], rng)
        if x:
            lines.append(x[0])
            descr.append(x[1])
        if len(lines) >= want:
            break
    if len(lines) < min(3, want):
        raise common.Infra("self-test could not build corrupted behaviours")
    st, js = replay(ctx, lines, "selftest", report=False, extra=["-settle", "4s"])
    bad = set(js["bad_behaviours"] or [])
    missed = [descr[i] for i in range(len(lines)) if i not in bad]
    # and the harness' own corruption switch: one observed message forgotten per behaviour
    withmsgs = [c[0] for c in cheap if any(len(g) > 0 for g in json.loads(c[0])["gen"])][:3]
    if len(withmsgs) < 3:
        raise common.Infra("self-test could not find behaviours with messages")
    st2, js2 = replay(ctx, withmsgs, "selftest_obs", report=False, extra=["-corrupt"])
    bad2 = set(js2["bad_behaviours"] or [])
    if len(bad2) < 3:
        missed.append("a forgotten observed message went unnoticed")
    ctx.log("self-test (model -> code): %d corrupted expectations + 3 corrupted observations, %d noticed"
            % (len(lines), len(lines) + 3 - len(missed)))
    if missed:
        raise common.Infra("the binding is vacuous: corruptions not noticed: %s" % missed[:3])
    return len(lines) + 3, descr[:3]


def corrupt_trace(line, rng):
    """Corrupt ONE recorded stream of a run; returns list of (new line, description, kind, receiver)."""
    out = []
    r = json.loads(line)
    # a subscriber stream with enough items
    subs = [s for s in r["subs"] if len(s["items"]) >= 6]
    if subs:
        s = rng.choice(subs)
        # drop an item that a subscription acknowledged long before must have received: the last one (the end sentinel's
        # predecessor is certainly past every acknowledgement)
        x = json.loads(line)
        st = [t for t in x["subs"] if t["s"] == s["s"]][0]
        st["items"].pop(len(st["items"]) - 2)
        out.append((json.dumps(x), "item dropped from subscriber %d" % s["s"], "sub", s["s"]))
        x = json.loads(line)
        st = [t for t in x["subs"] if t["s"] == s["s"]][0]
        i = rng.randrange(len(st["items"]))
        st["items"].insert(i, dict(st["items"][i]))
        out.append((json.dumps(x), "item duplicated in subscriber %d" % s["s"], "sub", s["s"]))
        x = json.loads(line)
        st = [t for t in x["subs"] if t["s"] == s["s"]][0]
        its = st["items"]
        pairs = [(i, j) for i in range(len(its)) for j in range(i + 1, len(its))
                 if its[i]["c"] == its[j]["c"] and its[i]["i"] < its[j]["i"]]
        if pairs:
            i, j = rng.choice(pairs)
            its[i], its[j] = its[j], its[i]
            out.append((json.dumps(x), "two items of one connection swapped in subscriber %d" % s["s"], "sub", s["s"]))
        x = json.loads(line)
        st = [t for t in x["subs"] if t["s"] == s["s"]][0]
        st["items"][0] = dict(st["items"][0], c=0, i=0, st=0, rt=0, w=0)
        out.append((json.dumps(x), "item of unknown origin in subscriber %d" % s["s"], "sub", s["s"]))
    x = json.loads(line)
    hk = x["hooks"][0]
    if len(hk["items"]) >= 3:
        hk["items"][0], hk["items"][1] = hk["items"][1], hk["items"][0]
        out.append((json.dumps(x), "first two accepted messages of webhook 1 swapped", "hook", 1))
    x = json.loads(line)
    lv = x["lives"][0]
    if len(lv["items"]) >= 3:
        lv["items"].pop(len(lv["items"]) // 2)
        out.append((json.dumps(x), "item dropped from live fence 1", "live", 1))
    return out


# ------------------------------------------------------------------------------------------------ tiers
def run(ctx):
    if ctx.replay:
        return run_replay(ctx)
    t0 = time.time()
    with cf.ThreadPoolExecutor(max_workers=2) as ex:
        fdesign = ex.submit(design, ctx)
        cfgs = sim_configs(ctx)
        nsim = ctx.pick(150, 1500)
        with cf.ThreadPoolExecutor(max_workers=4) as ex2:
            sims = list(ex2.map(lambda c: (c[0],) + simulate(ctx, c[0], c[1], nsim), cfgs))
        res, intended, refuted, taken = fdesign.result()
    files = [(n, beh) for n, r, beh, k in sims]
    ngen = sum(k for n, r, beh, k in sims)
    ctx.log("TLC NotifySim: %d behaviours generated from %d configurations (%.0fs since start)" % (ngen, len(sims), time.time() - t0))
    required = list(REQUIRED)
    if not ctx.quick:
        required += ["tick", "dropped_by_retention"]
    required += ["res:hang"]
    chosen, covered = select(ctx, files, ctx.pick(36, 600), ctx.pick(6.5, 12.0), ctx.pick(3, 60), required)
    st, js = replay(ctx, [c[0] for c in chosen], "scripts", par=ctx.pick(PAR, "16"))
    ctx.log("replay: %d behaviours, %d events, %d attempts compared with TLC's (%s), %d hooks judged at quiescence (%d messages), "
            "%d refused attempts observed, %d mid-batch failures, %d failover deliveries, %d hangs, %d not judged (slow), "
            "%d desynchronised, mismatches %s"
            % (st["behaviours"], st["events"], st["steps_compared"], st["tries"], st["hooks_compared"], st["messages_compared"],
               st["refused_attempts_observed"], st["mid_batch_failures"], st["failover_deliveries"], st["hangs"], st["skipped_slow"],
               st["desynchronised"], st["mismatch_classes"] or "none"))
    if st["skipped_slow"]:
        ctx.log("not judged: %s, e.g. %s" % (st.get("skip_reasons"), (st.get("skip_examples") or [""])[0][:300]))
    if st["skipped_slow"] > max(2, st["behaviours"] // 5):
        raise common.Infra("%d of %d behaviours could not be judged: the machine is too slow" % (st["skipped_slow"], st["behaviours"]))
    if st["hooks_compared"] == 0 or st["steps_compared"] == 0 or st["messages_compared"] == 0:
        raise common.Infra("the replay compared nothing (vacuous)")
    if st["mid_batch_failures"] == 0 or st["failover_deliveries"] == 0 or st["refused_attempts_observed"] == 0 \
            or st["writes_while_a_request_was_in_flight"] == 0:
        raise common.Infra("the replay never exercised a mid-batch failure / a failover / a refused attempt / a write during a send: %s" % st)

    # ---- concurrent runs judged by NotifyTrace
    try:
        rest(ctx, st, chosen, covered, res, intended, refuted, taken, sims, ngen)
    except common.Infra as e:
        if not ctx.violations:
            raise
        ctx.log("a later stage could not be completed after violations had been found: %s" % e)


def rest(ctx, st, chosen, covered, res, intended, refuted, taken, sims, ngen):
    nburst = live_burst(ctx)
    summ, recs, nm2, tlines, tr = concurrent_legs(ctx, [
        ("faults", ctx.pick(8, 90), ctx.seed, ["-ops", ctx.pick("24", "30")]),
        ("nofaults", ctx.pick(8, 90), ctx.seed + 1000, ["-faults=false", "-pace", "1ms", "-writers", "5", "-ops", ctx.pick("24", "40")])])
    cj, cj2 = recs[0][2], recs[1][2]
    ctx.log("concurrent runs: %d + %d recorded (%d too slow), %d streams with %d items judged by NotifyTrace, %d rejected; "
            "%d requests answered 503, %d + %d failure windows"
            % (cj["runs"], cj2["runs"], cj["not_recorded_slow"] + cj2["not_recorded_slow"], summ["streams"], summ["items"],
               summ["rejected"], cj["info"].get("requests_rejected", 0), cj["info"].get("windows_503", 0),
               cj["info"].get("windows_refuse", 0)))
    if summ["items"] == 0 or summ["streams"] == 0 or cj["info"].get("sub_items", 0) == 0 or cj["info"].get("live_items", 0) == 0 \
            or cj["info"].get("hook_items", 0) == 0:
        raise common.Infra("the concurrent runs delivered nothing to judge (vacuous): %s" % cj)
    if cj["info"].get("requests_rejected", 0) == 0:
        raise common.Infra("no request was ever rejected in the concurrent runs: the failing endpoint was not exercised")

    # ---- self-test of the model -> code binding
    nm1, mut_samples = selftest_replay(ctx, chosen, ctx.pick(6, 30))

    states = sum(r["distinct"] for r in res.values()) + sum(r["generated"] for n, r, beh, k in sims)
    trans = sum(r["generated"] for r in res.values()) + sum(r["generated"] for n, r, beh, k in sims)
    sample_b = json.loads(chosen[0][0])
    sample_b["h"] = [e for e in sample_b["h"] if e["a"] not in ("take", "reinsert")][:25]
    tr0 = json.loads(tlines[0])
    common.write_evidence(ctx, "model_checking", {
        "states": states,
        "transitions": trans,
        "traces_validated_against_impl": st["behaviours"] - st["skipped_slow"] + cj["runs"] + cj2["runs"],
        "samples": [{"failure_script_replayed": sample_b},
                    {"concurrent_run_judged": {"id": tr0["id"], "operations": len(tr0["pubs"]) + len(tr0["writes"]),
                                               "subscription_instances": tr0["insts"][:4],
                                               "first_items_of_subscriber_1": tr0["subs"][0]["items"][:4],
                                               "requests_seen_by_webhook_1": tr0["hooks"][0]["attempts"][:6]}}],
        "design_configurations_intended": {n: {"distinct": res[n]["distinct"], "generated": res[n]["generated"]} for n in intended},
        "design_variants_refuted": refuted,
        "actions_taken": {a: taken[a] for a in sorted(taken) if a in ACTIONS},
        "behaviours_generated": ngen,
        "behaviours_replayed": st["behaviours"],
        "behaviours_not_judged_slow": st["skipped_slow"],
        "behaviours_not_judged_reasons": st.get("skip_reasons") or {},
        "script_events_executed": st["events"],
        "attempts_compared_with_TLC": st["steps_compared"],
        "scripted_attempts_by_outcome": st["tries"],
        "hooks_judged_at_quiescence": st["hooks_compared"],
        "messages_compared_at_quiescence": st["messages_compared"],
        "mid_batch_failures": st["mid_batch_failures"],
        "failover_deliveries": st["failover_deliveries"],
        "refused_attempts_observed_in_server_log": st["refused_attempts_observed"],
        "writes_while_a_request_was_in_flight": st["writes_while_a_request_was_in_flight"],
        "hangs": st["hangs"], "ticks": st["ticks"], "messages_dropped_by_retention": st["dropped_by_retention"],
        "script_features_covered": sorted(covered),
        "concurrent_runs_recorded": cj["runs"] + cj2["runs"],
        "concurrent_runs_too_slow": cj["not_recorded_slow"] + cj2["not_recorded_slow"],
        "streams_judged_by_NotifyTrace": summ["streams"],
        "stream_items_judged": summ["items"],
        "streams_rejected": summ["rejected"],
        "concurrent_info": {"with_faults": cj["info"], "without_faults": cj2["info"]},
        "redefinitions_replayed": st["replaces"],
        "live_burst_events_exactly_once": nburst,
        "selftest_corruptions_noticed": nm1 + nm2,
        "selftest_samples": mut_samples,
        "exhaustive": False,
        "explanation": "TLC checks the design exhaustively on small configurations (all interleavings of writes, senders, "
                       "publishers, subscribers, status changes; liveness under weak fairness) and refutes every named broken "
                       "variant; random behaviours of the webhook path are replayed as failure scripts into real servers with "
                       "every request held until its scripted attempt; concurrent runs are recorded and every receiver's "
                       "stream is judged by TLC with the operators proven on the design.",
    }, [
        "a write is a SET of a fresh object inside every fence of its key: it generates one message per detect code of the fence "
        "(enter, inside); other fence semantics are C05's",
        "an endpoint failure never accepts a request: refuse = closed listener (or a cut connection when the request was already "
        "connected), 5xx = 503, hang = no answer until the client's 5 s timeout; requests held longer than 3 s are cut, not accepted",
        "the refusal of an attempt against a closed listener is known from the server's own debug log (synchronisation only, "
        "no verdict depends on it)",
        "time based judgements (message not delivered %s after recovery) are made only when the process never stalled longer "
        "than 1.5 s; otherwise the scenario is not judged" % "20 s",
        "client-side precedence comes from one atomic ticket counter (before the command is written / after its reply is read); "
        "the order of the writes is the order of the SETs in appendonly.aof",
        "a live fence may receive the event of a write that was completed before the fence was requested (processLives "
        "distributes when it pops): allowed by the specification, shown reachable by TLC, not demanded either way",
    ])


def run_replay(ctx):
    p = json.load(open(ctx.replay))
    if p.get("kind") == "notify-behaviour":
        st, js = replay(ctx, [p["behaviour"]], "replay")
        if st["hooks_compared"] == 0 and st["skipped_slow"] == 0:
            raise common.Infra("replay compared nothing")
        return
    if p.get("kind") == "notify-trace":
        # the saved record is what was rejected (shown again for reference); the replay records the same runs again -
        # same seed and options, the schedule will differ - and judges the new records
        tp = os.path.join(ctx.scratch, "saved.ndjson")
        open(tp, "w").write(p["line"] + "\n")
        summ, rej, r = judge(ctx, "saved", tp)
        ctx.log("the saved record is still rejected: %s" % [(x["kind"], x["r"], sorted(x["why"])) for x in rej])
        args = list(p["args"])
        out = os.path.join(ctx.scratch, "again.ndjson")
        args[args.index("-out") + 1] = out
        args[args.index("-dir") + 1] = os.path.join(ctx.scratch, "csrv_again")
        harness_or_crash(ctx, args, "replay")
        summ, rej, r = judge(ctx, "again", out)
        lines = open(out).read().split("\n")
        for x in rej[:3]:
            common.report(ctx, "c10-replay-%s" % x["kind"], "recorded %s stream rejected by NotifyTrace: %s (run %s, receiver %d)"
                          % (x["kind"], ", ".join(sorted(x["why"])), x["id"], x["r"]),
                          {"kind": "notify-trace", "line": lines[x["line"] - 1], "rejected": x, "args": p["args"]})
        if summ["streams"] == 0:
            raise common.Infra("replay recorded nothing")
        return
    if p.get("kind") == "notify-crash":
        args = list(p["args"])
        for flag, name in (("-out", "again.ndjson"), ("-dir", "csrv_again")):
            if flag in args:
                args[args.index(flag) + 1] = os.path.join(ctx.scratch, name)
        for i in range(5):
            harness_or_crash(ctx, args, "replay", timeout=3000)
        return
    raise common.Infra("unknown replay file")
