-------------------------------- MODULE AOF --------------------------------
(***************************************************************************)
(* The append-only log and restart (internal/server/aof.go).               *)
(*   Exec(c)   a command is applied and, iff its handler reports `updated` *)
(*             (and its name is in the write-command table), appended to   *)
(*             the log in the same critical section;                        *)
(*   Snap      the process is killed after the last acknowledgement: what  *)
(*             a restart recovers is Replay(log);                           *)
(*   Restart   clean stop and start on the same directory.                  *)
(* C03: Replay(log) = the acknowledged state (collections, objects, fields, *)
(* hooks, channels, has-deadline).  The property is not trivial because     *)
(* (i) commands that report "not updated" are omitted from the log, (ii)    *)
(* the write-command table decides what is logged at all (Unlogged is the   *)
(* deviation: commands the implementation forgets to log), (iii) replay     *)
(* re-executes history-dependent commands (NX/XX, RENAMENX, hooks blocking  *)
(* RENAME, JSET on documents) against the replayed state.                   *)
(***************************************************************************)
EXTENDS KeyspaceRand, Json

CONSTANTS MaxHist,
          Unlogged       \* set of operation names missing from the write-command table ({} = intended)

VARIABLES st, log, hist, done
vars == <<st, log, hist, done>>

Init == st = EmptyState /\ log = <<>> /\ hist = <<>> /\ done = FALSE

RECURSIVE ReplayFrom(_, _)
ReplayFrom(s, l) == IF l = <<>> THEN s ELSE ReplayFrom(Apply(s, Head(l)).st, Tail(l))
Replay(l) == ReplayFrom(EmptyState, l)

\* how a write is issued: directly, or by a script (EVAL / EVALNA): transparent for the state and the log
Vias == {"direct", "direct", "direct", "eval", "evalna"}
Scriptable(c) == c.op \in {"set", "fset", "del", "pdel", "drop", "rename", "expire", "persist", "jset"}

Exec(c) == LET r == Apply(st, c)
               via == IF Scriptable(c) THEN RandomElement(Vias) ELSE "direct" IN
           /\ Generable(st, c)
           /\ st' = r.st
           /\ log' = IF r.upd /\ c.op \notin Unlogged THEN Append(log, c) ELSE log
           /\ hist' = Append(hist, [e |-> "cmd", c |-> c, via |-> via, rr |-> r.rr, rj |-> r.rj, upd |-> r.upd, post |-> r.st])
           /\ UNCHANGED done

\* kill right after the last acknowledgement / clean restart: the recovered state must be `st`
Snap == /\ hist # <<>> /\ hist[Len(hist)].e = "cmd"
        /\ hist' = Append(hist, [e |-> RandomElement({"snap", "snap", "restart"}), post |-> st])
        /\ UNCHANGED <<st, log, done>>

AofOps == SimOps \o <<"expirenow", "expirenow", "jset", "jdel">>
Finish == /\ Len(hist) >= MaxHist /\ ~done /\ done' = TRUE /\ UNCHANGED <<st, log, hist>>
          /\ PrintT(<<"TR", ToJson([h |-> hist, post |-> st])>>)
SimNext == \/ /\ Len(hist) < MaxHist
              /\ \/ \E j \in 1..Len(AofOps) : Exec(SimCmd(AofOps[j]))
                 \/ Snap \/ Snap \/ Snap
           \/ Finish
SimSpec == Init /\ [][SimNext]_vars

\* ---- C04: behaviours for the torn-tail enumeration: direct commands only; every step carries the
\* state after it (what a log torn just after this command must recover to) and the state after one
\* further acknowledged write Extra (what a second restart must then show)
Extra == [op |-> "set", k |-> KeySeq[Len(KeySeq)], id |-> IdSeq[Len(IdSeq)], g |-> "g:P2", fu |-> <<>>,
          ex |-> FALSE, cond |-> "-"]
TornExec(c) == LET r == Apply(st, c) IN
           /\ Generable(st, c)
           /\ st' = r.st
           /\ log' = IF r.upd /\ c.op \notin Unlogged THEN Append(log, c) ELSE log
           /\ hist' = Append(hist, [e |-> "cmd", c |-> c, via |-> "direct", rr |-> r.rr, upd |-> r.upd,
                                    post |-> r.st, postx |-> Apply(r.st, Extra).st])
           /\ UNCHANGED done
TornOps == <<"set", "set", "set", "set", "fset", "fset", "del", "pdel", "drop", "rename", "expire", "persist",
             "jset", "jset", "jdel", "sethook", "sethook", "delhook", "flushdb", "get">>
TornFinish == /\ Len(hist) >= MaxHist /\ ~done /\ done' = TRUE /\ UNCHANGED <<st, log, hist>>
              /\ PrintT(<<"TR", ToJson([h |-> hist, post |-> st, empty |-> EmptyState,
                                        emptyx |-> Apply(EmptyState, Extra).st, extra |-> Extra])>>)
TornNext == \/ /\ Len(hist) < MaxHist /\ \E j \in 1..Len(TornOps) : TornExec(SimCmd(TornOps[j]))
            \/ TornFinish
TornSpec == Init /\ [][TornNext]_vars

\* exhaustive design check over a small alphabet (no RandomElement): see AOFDesign below
RestartEquivalence == Replay(log) = st
=============================================================================
