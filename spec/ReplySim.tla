----------------------------- MODULE ReplySim -----------------------------
(***************************************************************************)
(* Random chains of commands for property C17 (tlc -simulate).             *)
(*                                                                         *)
(* ReplyGen asks every cell of the command table on the fixture of a       *)
(* naming.  The statement quantifies over states: a chain executes         *)
(* ChainLen random cells (instance x argument shape) one after the other   *)
(* on ONE naming without restoring the fixture in between, so that the     *)
(* later commands meet the states the earlier ones left behind (emptied    *)
(* and renamed collections, one-element and empty lists, deleted hooks,    *)
(* flushed scripts, a read-only server, fields added and removed).  Agree  *)
(* needs no model of the state: all lanes execute the same chain.          *)
(* Each command is built with RandomElement; the chain is printed once,    *)
(* when it is complete.                                                    *)
(***************************************************************************)
EXTENDS Integers, Sequences, FiniteSets, Json, TLC

CONSTANTS InstSeq,     \* as in ReplyGen
          RowSeq,
          ChainLen

VARIABLES row, chain, done
vars == <<row, chain, done>>

Shapes(n) == {<<"valid", 0>>, <<"extra", 0>>}
             \cup {<<"drop", k>> : k \in 1..(n - 1)}
             \cup {<<"garble", k>> : k \in 2..n}

NonLive == {i \in 1..Len(InstSeq) : ~InstSeq[i].live}

\* (an operator with a parameter: TLC evaluates a definition without parameters once and for all)
RE(S) == RandomElement(S)

Init == row \in 1..Len(RowSeq) /\ chain = <<>> /\ done = FALSE

\* one random cell; two of three commands are well-formed: the state must move
\* (bounded quantifiers over singletons bind each random draw exactly once)
Grow == /\ Len(chain) < ChainLen
        /\ \E i \in {RE(NonLive)} : \E v \in {RE(1..3)} :
             \E sh \in {IF v <= 2 THEN <<"valid", 0>> ELSE RE(Shapes(InstSeq[i].n))} :
                chain' = Append(chain, [inst |-> InstSeq[i].id, shape |-> sh[1], p |-> sh[2]])
        /\ UNCHANGED <<row, done>>
Finish == /\ Len(chain) = ChainLen /\ ~done /\ done' = TRUE
          /\ PrintT(<<"TR", ToJson([kind |-> "chain", row |-> RowSeq[row], steps |-> chain])>>)
          /\ UNCHANGED <<row, chain>>
Next == Grow \/ Finish
Spec == Init /\ [][Next]_vars

ChainTyped == Len(chain) <= ChainLen /\ \A x \in 1..Len(chain) : chain[x].shape \in {"valid", "extra", "drop", "garble"}
=============================================================================
