----------------------------- MODULE AOFDesign -----------------------------
(* Exhaustive design check of C03 over the KeyspaceGen command sets: every  *)
(* history of the small alphabet up to MaxHist; RestartEquivalence must     *)
(* hold with the intended write-command table and must fail when a mutating *)
(* command is missing from it (Unlogged), which is how the model shows that *)
(* the property is sensitive to the table (vacuity guard).                  *)
EXTENDS KeyspaceGen

CONSTANT Unlogged
VARIABLE log
avars == <<st, hist, log>>

RECURSIVE ReplayFrom(_, _)
ReplayFrom(s, l) == IF l = <<>> THEN s ELSE ReplayFrom(Apply(s, Head(l)).st, Tail(l))

AInit == Init /\ log = <<>>
ANext == /\ Next
         /\ LET h == hist'[Len(hist')] IN
            log' = IF h.upd /\ h.c.op \notin Unlogged THEN Append(log, h.c) ELSE log
ASpec == AInit /\ [][ANext]_avars
RestartEquivalence == ReplayFrom(EmptyState, log) = st
AView == <<st, log>>
=============================================================================
