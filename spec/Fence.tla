-------------------------------- MODULE Fence --------------------------------
(***************************************************************************)
(* C05  Static geofences: NEARBY / WITHIN / INTERSECTS key FENCE           *)
(*      [DETECT d,..] [COMMANDS c,..] [MATCH glob] [WHERE f lo hi]         *)
(*      [NOFIELDS] area.                                                   *)
(*                                                                         *)
(* Objects of ONE collection sit on numbered cells (0 = the object does    *)
(* not exist, -1 = it exists as a string value, i.e. without a position)   *)
(* and carry one numeric field.  The constants Classes / Fences list all   *)
(* fences registered on the collection (a class = everything but DETECT).  *)
(* Every write (SET, SET .. STRING, FSET, DEL, PDEL, DROP, expiry of a     *)
(* SET .. EX) yields, for EVERY fence, the list of notifications the       *)
(* fence's receiver must see (hist).  Geometry is NOT computed             *)
(* here: whether an object placed on a cell satisfies the spatial test of  *)
(* an area (Inside), whether the straight segment between two cell centres *)
(* meets the area (Cross) and the bounding-rectangle relations the server  *)
(* uses to pre-select fences (Touch, TouchU) are tables produced by the    *)
(* harness' own geometry for the concrete coordinates.                     *)
(*                                                                         *)
(* Two formulations are given and TLC shows they coincide:                 *)
(*   Documented - the statement of C05: the full documented sequence for   *)
(*                the (previous, new) position, filtered by DETECT, then   *)
(*                by COMMANDS (what the conformance check expects from     *)
(*                the real code)                                           *)
(*   Coded      - the structure of internal/server/fence.go fenceMatch:    *)
(*                one detect value from the two tests (`nocross' rule for  *)
(*                objects rejected by WHERE), the detect-filter fallback   *)
(*                loop (enter->inside, exit/cross->outside), first message *)
(*                + companion message                                      *)
(* Delivery: webhooks and channels see a fence only if the server          *)
(* pre-selects it (internal/server/aof.go getQueueCandidates: fences that  *)
(* detect `outside', R-tree hits of the old / new / union rectangle), live *)
(* connections evaluate every write of their key (live.go).                *)
(* TransportsAgree states that the pre-selection never loses a message.    *)
(*                                                                         *)
(* Variant names a deliberately broken design; TLC refutes each of them    *)
(* (StrOrigin is how the code behaved before fix e8f0d45: a previous       *)
(* string value was treated as a position at longitude 0 / latitude 0).    *)
(***************************************************************************)
EXTENDS Integers, Sequences, FiniteSets, TLC

CONSTANTS
  IdSeq,     \* object ids in ascending byte order; an id is a sequence of 1-character strings
  NCells,    \* positions are the cells 1..NCells (0 = the object does not exist)
  Classes,   \* sequence of records [area, cmds, glob, where, wlo, whi, nofields]: everything of a fence but DETECT
  Fences,    \* sequence of records [cls, dflt, detect]: a class with a DETECT clause (dflt: no clause = all five)
  Inside,    \* Inside[a][c]     : an object on cell c satisfies the spatial test of area a
  Cross,     \* Cross[a][c][d]   : the segment between the centres of cells c and d meets area a
  CrossO,    \* CrossO[a][c]     : the segment between longitude 0 / latitude 0 and the centre of c meets area a
  Touch,     \* Touch[a][c]      : the rectangle of an object on c meets the bounding rectangle of a
  TouchU,    \* TouchU[a][c][d]  : the rectangle spanned by objects on c and d meets the bounding rectangle of a
  FVals,     \* values of the field; 0 = field absent (the only zero)
  SetVals,   \* FIELD options of a generated SET: values of FVals, -1 = no FIELD clause (the fields are kept)
  ExCells,   \* cells for which SET .. EX followed by its expiry is generated as well
  WithStr,   \* also generate SET key id STRING text (the object stays, its position is gone)
  PdelPats,  \* id patterns for PDEL
  Variant,   \* "intended" or the name of a broken design (see below)
  MaxHist    \* length bound of generated behaviours

Objs   == 1..Len(IdSeq)
Cells  == 1..NCells
FIds   == 1..Len(Fences)
KIds   == 1..Len(Classes)
K(f)   == Fences[f].cls
Areas  == {Classes[k].area : k \in KIds}
Detects == {"inside", "outside", "enter", "exit", "cross"}
Variants == {"intended", "NoFallback", "CrossAlone", "FsetEnter", "CrossFromInside", "NoUnionSearch", "NewRectOnly", "StrOrigin"}

ASSUME ConfigSane ==
  /\ Variant \in Variants
  /\ 0 \in FVals /\ SetVals \subseteq FVals \cup {-1} /\ ExCells \subseteq Cells
  /\ \A f \in FIds : /\ Fences[f].detect \subseteq Detects
                     /\ Fences[f].dflt => Fences[f].detect = Detects     \* no DETECT clause = all five
                     /\ Fences[f].detect # {}                           \* DETECT needs at least one name
                     /\ K(f) \in KIds
  /\ \A k \in KIds : Classes[k].cmds \subseteq {"set", "fset", "del", "drop"}
\* the geometry tables are consistent: something inside an area touches its bounding rectangle, a segment
\* meeting the area spans a rectangle that touches it, a segment with an end point inside the area meets it
ASSUME TablesSane ==
  \A a \in Areas :
    /\ \A c \in Cells : Inside[a][c] => Touch[a][c]
    /\ \A c, d \in Cells : /\ Cross[a][c][d] = Cross[a][d][c]
                           /\ Cross[a][c][d] => TouchU[a][c][d]
                           /\ Touch[a][c] => TouchU[a][c][d] /\ TouchU[a][d][c]

-----------------------------------------------------------------------------
(* Glob matching on character sequences (literals, "*" and "?").            *)
RECURSIVE GlobMatch(_, _)
GlobMatch(p, s) ==
  IF p = <<>> THEN s = <<>>
  ELSE IF Head(p) = "*" THEN GlobMatch(Tail(p), s) \/ (s # <<>> /\ GlobMatch(p, Tail(s)))
  ELSE s # <<>> /\ (Head(p) = "?" \/ Head(p) = Head(s)) /\ GlobMatch(Tail(p), Tail(s))

\* the operators below take a class k (a fence without its DETECT clause); TLC evaluates GlobT once
GlobT == [k \in KIds |-> [o \in Objs |-> GlobMatch(Classes[k].glob, IdSeq[o])]]
Glob(k, o)  == GlobT[k][o]                                     \* MATCH of the fence (default "*")
Where(k, v) == Classes[k].where => (Classes[k].wlo <= v /\ v <= Classes[k].whi)   \* WHERE field lo hi; absent = 0
Sp(k, c)    == c > 0 /\ Inside[Classes[k].area][c]             \* spatial test alone (false without a position)
In(k, c, v) == Sp(k, c) /\ Where(k, v)                         \* "inside the fence": area and WHERE
Seg(k, c, d) == c > 0 /\ d > 0 /\ Cross[Classes[k].area][c][d]    \* a path needs two positions

-----------------------------------------------------------------------------
(* The statement of C05.  Previous position oc (0 = none; FSET carries no   *)
(* previous object), previous field ov, new position nc, new field nv.      *)
Full(k, cmd, oc, ov, nc, nv) ==
  IF cmd = "fset" THEN (IF In(k, nc, nv) THEN <<"inside">> ELSE <<"outside">>)   \* by the current position
  ELSE IF In(k, oc, ov)
       THEN (IF In(k, nc, nv) THEN <<"inside">> ELSE <<"exit", "outside">>)
  ELSE IF In(k, nc, nv) THEN <<"enter", "inside">>
  ELSE IF ~Where(k, nv) THEN <<>>                   \* never seen by this fence and still filtered out by WHERE
  ELSE IF ~Sp(k, oc) /\ ~Sp(k, nc) /\ Seg(k, oc, nc) THEN <<"cross", "outside">>   \* was outside, is outside, path went through
  ELSE <<"outside">>

Accepts(k, cmd) == Classes[k].cmds = {} \/ cmd \in Classes[k].cmds       \* COMMANDS filter

\* is the write seen by the fence at all: MATCH on the id, COMMANDS, NOFIELDS fences ignore FSET
Seen(k, cmd, o) == Glob(k, o) /\ Accepts(k, cmd) /\ ~(cmd = "fset" /\ Classes[k].nofields)

\* the documented sequence of a class for a write, before DETECT
FullSeen(k, cmd, o, oc, ov, nc, nv) == IF Seen(k, cmd, o) THEN Full(k, cmd, oc, ov, nc, nv) ELSE <<>>

Detected(f, full) == SelectSeq(full, LAMBDA d : d \in Fences[f].detect)      \* DETECT keeps the named ones, in order
Documented(f, cmd, o, oc, ov, nc, nv) == Detected(f, FullSeen(K(f), cmd, o, oc, ov, nc, nv))

-----------------------------------------------------------------------------
(* The structure of fenceMatch (fence.go).                                  *)
CodedDetect(k, cmd, oc, ov, nc, nv) ==
  LET sp1 == Sp(k, oc)
      m1  == sp1 /\ Where(k, ov)
      nc1 == IF sp1 THEN ~m1 ELSE FALSE                 \* nocross after testing the old object
      sp2 == Sp(k, nc)
      m2  == sp2 /\ Where(k, nv)
      nocross == IF Variant = "CrossFromInside" THEN FALSE ELSE IF sp2 THEN ~m2 ELSE nc1
  IN IF m1 /\ m2 THEN "inside"
     ELSE IF m1 THEN "exit"
     ELSE IF m2 THEN (IF cmd = "fset" /\ Variant # "FsetEnter" THEN "inside" ELSE "enter")
     ELSE IF cmd = "fset" THEN "outside"
     ELSE IF ~Where(k, nv) THEN "none"
     ELSE IF ~nocross /\ Seg(k, oc, nc) THEN "cross"
     \* deviation StrOrigin: a previous string value is treated as a position at longitude 0 / latitude 0
     ELSE IF Variant = "StrOrigin" /\ oc = -1 /\ CrossO[Classes[k].area][nc] THEN "cross"
     ELSE "outside"

\* the loop `for { if fence.detect != nil && !fence.detect[detect] ...' : "none" = return nil
Fallback(f, d) ==
  LET det == Fences[f].detect
  IN IF d = "none" \/ d \in det THEN d
     ELSE IF Variant = "NoFallback" THEN "none"
     ELSE IF d = "enter" THEN (IF "inside" \in det THEN "inside" ELSE "none")
     ELSE IF d \in {"exit", "cross"} THEN (IF "outside" \in det THEN "outside" ELSE "none")
     ELSE "none"

\* first message + companion (`switch detect' at the end of fenceMatch)
Emit2(f, d) ==
  LET det == Fences[f].detect
  IN IF d = "none" THEN <<>>
     ELSE <<d>> \o (IF d = "enter" /\ "inside" \in det THEN <<"inside">>
                    ELSE IF d = "exit" /\ "outside" \in det THEN <<"outside">>
                    ELSE IF d = "cross" /\ "outside" \in det /\ Variant # "CrossAlone" THEN <<"outside">>
                    ELSE <<>>)

\* "none" also when the write is not seen: MATCH, FSET on a NOFIELDS fence (tested first in fenceMatch), COMMANDS (last)
CodedClass(k, cmd, o, oc, ov, nc, nv) ==
  IF ~Glob(k, o) THEN "none"
  ELSE IF cmd = "fset" /\ Classes[k].nofields THEN "none"
  ELSE IF ~Accepts(k, cmd) THEN "none"
  ELSE CodedDetect(k, cmd, oc, ov, nc, nv)
Coded(f, cmd, o, oc, ov, nc, nv) == Emit2(f, Fallback(f, CodedClass(K(f), cmd, o, oc, ov, nc, nv)))

-----------------------------------------------------------------------------
(* Pre-selection of webhook / channel fences (aof.go getQueueCandidates).   *)
DetectsOutside(f) == "outside" \in Fences[f].detect       \* registry hooksOut (no DETECT clause included)
InCrossTree(f)    == ~Fences[f].dflt /\ "cross" \in Fences[f].detect   \* registry hookCross
Candidate(f, oc, nc) ==
  LET a == Classes[K(f)].area
  IN \/ DetectsOutside(f)
     \/ Variant # "NoUnionSearch" /\ oc > 0 /\ nc > 0 /\ InCrossTree(f) /\ TouchU[a][oc][nc]
     \/ Variant # "NewRectOnly" /\ oc > 0 /\ Touch[a][oc]
     \/ nc > 0 /\ Touch[a][nc]
\* a webhook / channel receives Coded if pre-selected, else nothing; a live connection always Coded

-----------------------------------------------------------------------------
(* Deletions.  The statement requires `del' for an object that was inside   *)
(* the area of a fence without DETECT clause, and `drop' for such fences;   *)
(* for other fences it is silent ("may": the server sends `del' to the      *)
(* pre-selected fences and to every live connection).  MATCH and COMMANDS   *)
(* always apply.                                                            *)
DelNeed(f, o, c) ==
  IF ~Glob(K(f), o) \/ ~Accepts(K(f), "del") THEN "none"
  ELSE IF Fences[f].dflt /\ Sp(K(f), c) THEN "must" ELSE "may"
DropNeed(f) ==
  IF ~Accepts(K(f), "drop") THEN "none"
  ELSE IF Fences[f].dflt THEN "must" ELSE "may"

-----------------------------------------------------------------------------
(* Expected notifications of one step, per fence: a sequence of items       *)
(* [d detect ("" for del/drop), c command, o object (0 for drop), cell,     *)
(*  v field (-1: the fence has NOFIELDS), need "must" | "may"].             *)
Item(f, d, cmd, o, c, v, need) ==
  [d |-> d, c |-> cmd, o |-> o, cell |-> c, v |-> IF Classes[K(f)].nofields THEN -1 ELSE v, need |-> need]

\* (operator arguments are evaluated once per call by TLC, LET definitions of an action at every occurrence:
\*  the sequences are therefore handed down as arguments)
ItemsOf(f, ds, cmd, o, nc, nv, need) == [i \in 1..Len(ds) |-> Item(f, ds[i], cmd, o, nc, nv, need)]
MoveMsgs2(full, cmd, o, nc, nv, need) ==
  [f \in FIds |-> ItemsOf(f, Detected(f, full[K(f)]), cmd, o, nc, nv, need)]
MoveMsgs(cmd, o, oc, ov, nc, nv, need) ==
  MoveMsgs2([k \in KIds |-> FullSeen(k, cmd, o, oc, ov, nc, nv)], cmd, o, nc, nv, need)

RECURSIVE DelItems(_, _, _, _)
DelItems(f, os, pos0, fld0) ==       \* os: ascending sequence of deleted objects
  IF os = <<>> THEN <<>>
  ELSE LET o == Head(os)
           n == DelNeed(f, o, pos0[o])
       IN (IF n = "none" THEN <<>> ELSE <<Item(f, "", "del", o, pos0[o], fld0[o], n)>>)
          \o DelItems(f, Tail(os), pos0, fld0)

-----------------------------------------------------------------------------
VARIABLES pos, fld, ex, hist
vars == <<pos, fld, ex, hist>>

Init == /\ pos = [o \in Objs |-> 0]
        /\ fld = [o \in Objs |-> 0]
        /\ ex = [o \in Objs |-> FALSE]
        /\ hist = <<>>

Quiet == \A o \in Objs : ~ex[o]       \* no deadline pending (a pending deadline fires before anything else)

Step(op, o, c, v, withex, pat, msgs) ==
  [op |-> op, o |-> o, c |-> c, v |-> v, ex |-> withex, pat |-> pat, msgs |-> msgs]

NewVal(o, v) == IF v = -1 THEN fld[o] ELSE v
\* SET key id [FIELD f v] [EX s] <geometry of cell c>;  v = -1: no FIELD clause (fields are kept)
Set(o, c, v, withex) ==
  /\ Quiet
  /\ withex => c \in ExCells
  /\ pos' = [pos EXCEPT ![o] = c]
  /\ fld' = [fld EXCEPT ![o] = NewVal(o, v)]
  /\ ex' = [ex EXCEPT ![o] = withex]
  /\ hist' = Append(hist, Step("set", o, c, v, withex, <<>>, MoveMsgs("set", o, pos[o], fld[o], c, NewVal(o, v), "must")))

\* SET key id STRING text: the object keeps its id, fields and absence of a deadline, but has no position any more;
\* a value without position is nothing a fence reports (nor is its FSET or deletion)
SetStr(o) ==
  /\ Quiet /\ WithStr
  /\ pos' = [pos EXCEPT ![o] = -1]
  /\ UNCHANGED <<fld, ex>>
  /\ hist' = Append(hist, Step("setstr", o, 0, -1, FALSE, <<>>, [f \in FIds |-> <<>>]))

\* FSET key id f v: a change is reported by the current position; an FSET that changes nothing is not a write
\* (the statement does not say whether it notifies: "may")
Fset(o, v) ==
  /\ Quiet /\ pos[o] # 0
  /\ fld' = [fld EXCEPT ![o] = v]
  /\ UNCHANGED <<pos, ex>>
  /\ hist' = Append(hist, Step("fset", o, pos[o], v, FALSE, <<>>,
               IF pos[o] = -1 THEN [f \in FIds |-> <<>>]
               ELSE MoveMsgs("fset", o, 0, 0, pos[o], v, IF v = fld[o] THEN "may" ELSE "must")))

Gone(S) == /\ pos' = [o \in Objs |-> IF o \in S THEN 0 ELSE pos[o]]
           /\ fld' = [o \in Objs |-> IF o \in S THEN 0 ELSE fld[o]]
           /\ ex'  = [o \in Objs |-> IF o \in S THEN FALSE ELSE ex[o]]

RECURSIVE AscSeq(_)
AscSeq(S) == IF S = {} THEN <<>> ELSE LET m == CHOOSE x \in S : \A y \in S : x <= y IN <<m>> \o AscSeq(S \ {m})

\* DEL key id (of an existing or a missing object)
Del(o) ==
  /\ Quiet
  /\ Gone({o})
  /\ hist' = Append(hist, Step("del", o, 0, 0, FALSE, <<>>,
               [f \in FIds |-> IF pos[o] <= 0 THEN <<>> ELSE DelItems(f, <<o>>, pos, fld)]))

\* PDEL key pattern: one `del' per deleted object
PdelSet(pat) == {o \in Objs : pos[o] # 0 /\ GlobMatch(pat, IdSeq[o])}
Placed(S) == {o \in S : pos[o] > 0}       \* deleted objects that had a position
Pdel(pat) ==
  /\ Quiet
  /\ Gone(PdelSet(pat))
  /\ hist' = Append(hist, Step("pdel", 0, 0, 0, FALSE, pat, [f \in FIds |-> DelItems(f, AscSeq(Placed(PdelSet(pat))), pos, fld)]))

\* DROP key
Drop ==
  /\ Quiet
  /\ Gone(Objs)
  /\ hist' = Append(hist, Step("drop", 0, 0, 0, FALSE, <<>>,
               [f \in FIds |-> IF \A o \in Objs : pos[o] = 0 \/ DropNeed(f) = "none" THEN <<>>
                               ELSE <<Item(f, "", "drop", 0, 0, 0, DropNeed(f))>>]))

\* the deadline of a SET .. EX passes: the object is deleted by the server
Expire(o) ==
  /\ ex[o]
  /\ Gone({o})
  /\ hist' = Append(hist, Step("expire", o, 0, 0, FALSE, <<>>, [f \in FIds |-> DelItems(f, <<o>>, pos, fld)]))

Next == /\ Len(hist) < MaxHist
        /\ \/ \E o \in Objs, c \in Cells, v \in SetVals, x \in BOOLEAN : Set(o, c, v, x)
           \/ \E o \in Objs, v \in FVals : Fset(o, v)
           \/ \E o \in Objs : SetStr(o)
           \/ \E o \in Objs : Del(o) \/ Expire(o)
           \/ \E p \in PdelPats : Pdel(p)
           \/ Drop

Spec == Init /\ [][Next]_vars
View == <<pos, fld, ex>>

-----------------------------------------------------------------------------
TypeOK == /\ pos \in [Objs -> -1..NCells]
          /\ fld \in [Objs -> FVals]
          /\ ex \in [Objs -> BOOLEAN]
          /\ \A o \in Objs : pos[o] = 0 => fld[o] = 0 /\ ~ex[o]

LastH == hist'[Len(hist')]
IsMove == LastH.op \in {"set", "fset"} /\ pos'[LastH.o] > 0
\* arguments of the last SET / FSET as fenceMatch sees them
MOc == IF LastH.op = "set" THEN pos[LastH.o] ELSE 0
MOv == IF LastH.op = "set" THEN fld[LastH.o] ELSE 0
MNc == pos'[LastH.o]
MNv == fld'[LastH.o]
Updated == LastH.op = "set" \/ fld'[LastH.o] # fld[LastH.o]
DetectsOfItems(m) == [i \in 1..Len(m) |-> m[i].d]

\* the expected items of a SET / FSET are the documented ones, for the object and its new position
HistIsDocumented ==
  [][IsMove =>
       \A f \in FIds : /\ DetectsOfItems(LastH.msgs[f]) = Documented(f, LastH.op, LastH.o, MOc, MOv, MNc, MNv)
                       /\ \A i \in 1..Len(LastH.msgs[f]) : LastH.msgs[f][i].o = LastH.o /\ LastH.msgs[f][i].cell = MNc]_vars

\* the design of fenceMatch yields exactly the documented notifications - nothing else, nothing missing (NoOther) -
\* and webhook, channel and live connection receive the same for SET / FSET: a fence that is not pre-selected
\* would have sent nothing (TransportsAgree)
NoOtherBody(cd) ==      \* cd: the detect value fenceMatch computes, per class
  \A f \in FIds : Emit2(f, Fallback(f, cd[K(f)])) = DetectsOfItems(LastH.msgs[f])
NoOther ==
  [][IsMove /\ Updated =>
       NoOtherBody([k \in KIds |-> CodedClass(k, LastH.op, LastH.o, MOc, MOv, MNc, MNv)])]_vars
TransportsAgreeBody(cd) ==
  \A f \in FIds : Candidate(f, MOc, MNc) \/ Emit2(f, Fallback(f, cd[K(f)])) = <<>>
TransportsAgree ==
  [][IsMove /\ Updated =>
       TransportsAgreeBody([k \in KIds |-> CodedClass(k, LastH.op, LastH.o, MOc, MOv, MNc, MNv)])]_vars

\* a fence without DETECT clause is pre-selected for every deletion, so the required del / drop reach every transport
DelReachesDefault ==
  [][LastH.op \in {"del", "pdel", "expire", "drop"} =>
       \A f \in FIds : \A i \in 1..Len(LastH.msgs[f]) :
          LastH.msgs[f][i].need = "must" => Candidate(f, 0, LastH.msgs[f][i].cell)]_vars

\* consequences a receiver relies on (directly on the expected items)
Shape ==
  [][\A f \in FIds :
       LET m == LastH.msgs[f]
           k == K(f)
       IN /\ \A i \in 1..Len(m) : /\ m[i].d \in Fences[f].detect \cup {""}
                                    /\ Accepts(k, m[i].c)
                                    /\ m[i].o # 0 => Glob(k, m[i].o)
          /\ IsMove => /\ Len(m) <= 2
                       /\ \A i \in 1..Len(m) :
                            /\ m[i].d = "enter" => In(k, MNc, MNv) /\ ~In(k, MOc, MOv)
                            /\ m[i].d = "exit"  => ~In(k, MNc, MNv) /\ In(k, MOc, MOv)
                            /\ m[i].d = "inside"  => In(k, MNc, MNv)
                            /\ m[i].d = "outside" => ~In(k, MNc, MNv)
                            /\ m[i].d = "cross" => ~Sp(k, MOc) /\ ~Sp(k, MNc) /\ Seg(k, MOc, MNc)]_vars
=============================================================================
