----------------------------- MODULE ExpireGen -----------------------------
(***************************************************************************)
(* Command programs for C14, generated from the design machine of Expire.  *)
(*                                                                         *)
(* A program is the history of one behaviour: the commands with the tick   *)
(* at which each is issued, closed by a `probe` step that carries, for     *)
(* every object and hook, what the specification says is served at the     *)
(* probe instant - "present", "absent", or "unsure" when a deadline lies   *)
(* within the stated margins of the probe (a real clock cannot be replayed *)
(* tick-exactly; the margins are part of the specification, the harness    *)
(* only executes and compares).                                            *)
(*                                                                         *)
(* GenSpec (breadth-first, VIEW hides the history): the ghost `old`        *)
(* remembers every index entry that the intended design retires before it  *)
(* fired (overwrite with / without EX, EXPIRE, PERSIST, JSET, DEL, RENAME   *)
(* onto).  A sweep at which such an entry would have been due while an     *)
(* object of that name is served and stays served is a *stale-timer probe*:*)
(* exactly the situations in which a stale entry would remove a successor. *)
(* Emit prints one shortest program per such transition (tag "stale") and  *)
(* per sweep that expires something (tag "expiry"), and per EXPIRE /       *)
(* PERSIST of an object that is past its deadline but not swept ("limbo"). *)
(*                                                                         *)
(* SimSpec (tlc -simulate): long random programs, printed once at the end. *)
(***************************************************************************)
EXTENDS Expire, Json

CONSTANTS MarginP,   \* a deadline at least this far after the probe: surely still served
          MarginA,   \* a deadline at least this far before the probe: surely gone (>= sweep period + slack of ExpireTrace)
          Horizon,   \* deadlines within this of the last command are waited for
          GenOps     \* the commands the breadth-first generator uses (a subset of WriteOps)

VARIABLES hist, old, hold
gvars == <<now, st, due, stored, shadow, log, nops, ev, hist, old, hold>>

TtlOf(c) == IF c.d.x THEN c.d.lo - now ELSE -1
StepRec(c) == [op |-> c.op, k |-> c.k, i |-> c.i, k2 |-> c.k2, nm |-> c.nm, ttl |-> TtlOf(c), at |-> now]

\* entries the intended design retires at this step before they fired
Retired(c) == IF c.op = "rename" THEN IF Apply(st, c).r.t = "ok" /\ c.k # c.k2 THEN {e \in st.idx : e.k = c.k2} ELSE {}
              ELSE st.idx \ Apply(st, c).S.idx
OldAfter(c) ==
  IF c.op = "rename" /\ Apply(st, c).r.t = "ok" /\ c.k # c.k2
  THEN {e \in old : e.k \notin {c.k, c.k2}} \cup {[e EXCEPT !.k = c.k2] : e \in {e \in old : e.k = c.k}} \cup Retired(c)
  ELSE old \cup Retired(c)

GInit == Init /\ hist = <<>> /\ old = {} /\ hold = {}

GDo(c) == /\ Do(c)
          /\ hist' = Append(hist, StepRec(c))
          /\ old' = OldAfter(c)
          /\ hold' = hold \cup (st.hidx \ Apply(st, c).S.hidx)

GTick == Tick /\ UNCHANGED <<hist, old, hold>>

GSweep == /\ Sweep
          /\ old' = {e \in old : e.hi > now}
          /\ hold' = {e \in hold : e.hi > now}
          /\ UNCHANGED hist

GNext == (\E c \in {d \in Commands : d.op \in GenOps} : GDo(c)) \/ GTick \/ GSweep
GenSpec == GInit /\ [][GNext]_gvars
GenView == <<now, st, due, stored, shadow, nops, ev, old, hold>>

\* a retired entry comes due at this sweep while its name is served before and after the sweep
StaleProbe == /\ ev'.a = "sweep"
              /\ \/ \E e \in old : e.hi <= now /\ st.cols[e.k][e.i].p /\ st'.cols[e.k][e.i].p
                 \/ \E e \in hold : e.hi <= now /\ st.hooks[e.nm].p /\ st'.hooks[e.nm].p
Expiry == ev'.a = "sweep" /\ (ev'.rem # {} \/ ev'.hrem # {})
\* EXPIRE / PERSIST reaches an object whose deadline has passed but which the sweeper has not removed yet: it is
\* still served and the command succeeds (the copies - follower, restart - must end up with the object too)
Limbo == /\ Len(hist') = Len(hist) + 1
         /\ LET c == hist'[Len(hist')]
                o == IF c.op \in {"expire", "persist"} THEN st.cols[c.k][c.i] ELSE NoObj
            IN o.p /\ o.x /\ o.hi < now

\* The probe comes MarginA after the last command and after every deadline that falls within Horizon of it, so
\* that those expiries are part of the run.  What is served at the probe instant q:
ProbeAt(S, t) ==
  LET ds == {S.cols[v[1]][v[2]].hi : v \in {w \in Keys \X Ids : S.cols[w[1]][w[2]].p /\ S.cols[w[1]][w[2]].x /\ S.cols[w[1]][w[2]].hi <= t + Horizon}}
            \cup {S.hooks[nm].hi : nm \in {n \in Names : S.hooks[n].p /\ S.hooks[n].x /\ S.hooks[n].hi <= t + Horizon}}
            \cup {t}
  IN (CHOOSE m \in ds : \A d \in ds : d <= m) + MarginA
Served(o, q) == IF ~o.p THEN "absent"
                ELSE IF ~o.x THEN "present"
                ELSE IF o.hi >= q + MarginP THEN "present"
                ELSE IF o.hi + MarginA <= q THEN "absent"
                ELSE "unsure"
Probe(S, t) == LET q == ProbeAt(S, t) IN
               [op |-> "probe", at |-> q,
                exp |-> {[k |-> v[1], i |-> v[2], v |-> Served(S.cols[v[1]][v[2]], q)] : v \in Keys \X Ids},
                hexp |-> {[nm |-> nm, v |-> Served(S.hooks[nm], q)] : nm \in Names}]
\* A real clock cannot be replayed tick-exactly: a command whose outcome depends on whether a deadline near its own
\* instant has already fired (EXPIRE / PERSIST of that id, RENAME of any collection - which hooks block too) makes the probe of its program
\* undetermined.  Conservative, from the program alone: deadlines that were later moved or cancelled count too.
Racy(h) == \E a \in 1..Len(h), b \in 1..Len(h) :
              /\ a < b /\ h[a].op \in {"set", "expire", "sethook"} /\ h[a].ttl >= 0
              /\ \/ h[b].op = "rename"          \* (also refused while a hook or channel is on either key)
                 \/ h[b].op \in {"expire", "persist"} /\ h[a].op # "sethook" /\ h[b].i = h[a].i
              /\ h[a].at + h[a].ttl >= h[b].at - MarginA /\ h[a].at + h[a].ttl < h[b].at + MarginP
Program(tag, h, S, t, ph) == [tag |-> tag, phase |-> ph, racy |-> Racy(h), h |-> Append(h, Probe(S, t))]

\* (no disjunction in the printing part: TLC would evaluate PrintT of both branches)
Emit == [][IF StaleProbe THEN PrintT(<<"TR", ToJson(Program("stale", hist', st', now', due' - now'))>>)
           ELSE IF Expiry THEN PrintT(<<"TR", ToJson(Program("expiry", hist', st', now', due' - now'))>>)
           ELSE IF Limbo THEN PrintT(<<"TR", ToJson(Program("limbo", hist', st', now', due' - now'))>>)
           ELSE TRUE]_gvars

=============================================================================
