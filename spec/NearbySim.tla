----------------------------- MODULE NearbySim -----------------------------
(* Random histories of Nearby for `tlc -simulate' (larger grids, more       *)
(* objects): one random Set - or now and then a Del - per step, drawn with  *)
(* RandomElement; each history is printed once, when it has MaxHist steps.  *)
EXTENDS Nearby, Json

VARIABLE done
svars == <<at, fv, hist, done>>

SimInit == Init /\ done = FALSE

RE(S) == RandomElement(S)
\* the random draws are operator arguments: TLC evaluates an argument once per call
Pick(o, s, f, d) == IF at[o] # 0 /\ d = 1 THEN Del(o) ELSE Set(o, s, f)
SimStep == /\ Len(hist) < MaxHist
           /\ Pick(RE(Movers), RE(GenShapes), RE(0..1), RE(1..6))
           /\ UNCHANGED done
Finish == /\ Len(hist) = MaxHist /\ ~done /\ done' = TRUE
          /\ UNCHANGED vars
          /\ PrintT(<<"TR", ToJson([h |-> hist])>>)
SimNext == SimStep \/ Finish
SimSpec == SimInit /\ [][SimNext]_svars
=============================================================================
