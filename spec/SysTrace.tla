------------------------------ MODULE SysTrace ------------------------------
(***************************************************************************)
(* System-trace validation (code -> model) of the lock and log discipline  *)
(* for EVERY command an execution issues - in particular the executions of *)
(* the repository's own integration suite, built with the verif hooks.     *)
(*                                                                         *)
(* One line per client command, recorded at its linearization point (the   *)
(* hooks cmd.begin / cmd.done sit inside the lock that handleInputCommand  *)
(* chose for the command):                                                 *)
(*   name    command name            mode   "W" | "R" | "" (lock mode of   *)
(*   write   member of the logged           the executing goroutine)       *)
(*           write class             sampled the dataset projection was    *)
(*   chg     the projection differs         taken at begin and at done     *)
(*           between begin and done  grew / shrank  the log size changed   *)
(*                                                                         *)
(* The discipline is the one of Locking.tla and AOF.tla, stated per step:  *)
(*   WriteClassHoldsW   a command of the write class runs under W          *)
(*   MutatorsHoldW      whoever changes the dataset holds W (Locking)      *)
(*   LogOnlyUnderW      the log changes size only under W                  *)
(*   ChangedIsLogged    a command that changed the dataset appended to the *)
(*                      log (AOF: updated => logged), except the commands  *)
(*                      that replace the dataset by design (FOLLOW)        *)
(* Every violating line is printed (SV); at the end the class table the    *)
(* execution exhibited is printed (ST) and fed back into Locking.tla, where *)
(* TLC re-checks NoConflict / MutatorsHoldW for all interleavings of the   *)
(* OBSERVED table.                                                         *)
(***************************************************************************)
EXTENDS Integers, Sequences, SequencesExt, FiniteSets, TLC, Json

CONSTANT ResetNames      \* commands that may replace the dataset without logging it: {"follow", "slaveof"}

Trace == ndJsonDeserialize("sys.ndjson")

VARIABLES l, obs
vars == <<l, obs>>

WriteClassHoldsW(e) == e.write => e.mode = "W"
MutatorsHoldW(e)    == (e.sampled /\ e.chg) => e.mode = "W"
LogOnlyUnderW(e)    == (e.grew \/ e.shrank) => e.mode = "W"
ChangedIsLogged(e)  == (e.sampled /\ e.chg /\ e.name \notin ResetNames) => e.grew

Why(e) == (IF WriteClassHoldsW(e) THEN <<>> ELSE <<"WriteClassHoldsW">>) \o
          (IF MutatorsHoldW(e) THEN <<>> ELSE <<"MutatorsHoldW">>) \o
          (IF LogOnlyUnderW(e) THEN <<>> ELSE <<"LogOnlyUnderW">>) \o
          (IF ChangedIsLogged(e) THEN <<>> ELSE <<"ChangedIsLogged">>)

\* the class table the execution exhibits: per command name the lock modes seen, whether it ever changed the
\* dataset, ever made the log grow, how often it was seen / sampled
Key(e) == IF e.sub = "" THEN e.name ELSE e.name \o " " \o e.sub
Merge(o, e) ==
  LET k == Key(e)
      old == IF k \in DOMAIN o THEN o[k] ELSE [modes |-> {}, chg |-> FALSE, grew |-> FALSE, n |-> 0, sampled |-> 0]
      new == [modes |-> old.modes \cup {e.mode}, chg |-> old.chg \/ (e.sampled /\ e.chg), grew |-> old.grew \/ e.grew,
              n |-> old.n + 1, sampled |-> old.sampled + (IF e.sampled THEN 1 ELSE 0)]
  IN [x \in DOMAIN o \cup {k} |-> IF x = k THEN new ELSE o[x]]

Init == l = 1 /\ obs = <<>>
Step == /\ l <= Len(Trace)
        /\ LET e == Trace[l] IN
           /\ (Why(e) # <<>>) => PrintT(<<"SV", ToJson([l |-> l, e |-> e, why |-> Why(e)])>>)
           /\ obs' = Merge(obs, e)
        /\ l' = l + 1 /\ TLCSet(1, l')
Finish == /\ l = Len(Trace) + 1
          /\ PrintT(<<"ST", ToJson([k \in DOMAIN obs |-> [modes |-> SetToSeq(obs[k].modes), chg |-> obs[k].chg, grew |-> obs[k].grew,
                                                       n |-> obs[k].n, sampled |-> obs[k].sampled]])>>)
          /\ l' = l + 1 /\ TLCSet(1, l') /\ UNCHANGED obs
Spec == Init /\ [][Step \/ Finish]_vars
Accepted == TLCGet(1) = Len(Trace) + 2
=============================================================================
