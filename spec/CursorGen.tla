----------------------------- MODULE CursorGen -----------------------------
(***************************************************************************)
(* Case generator for C11 (model -> code).                                  *)
(*                                                                         *)
(* A dataset is one collection: objects with an id, a kind (point or       *)
(* string), a string value, one numeric field and a grid cell.  For the    *)
(* two query families whose index order is defined by the data - SCAN (id  *)
(* order, collection.Scan / ScanRange) and SEARCH (value order, then id;   *)
(* collection.SearchValues / SearchValuesRange) - the module derives the   *)
(* walk (iter, keep, stop) exactly as cmdScan / cmdSearch do (including    *)
(* the range shortcut of glob.Parse for literal-prefix patterns, whose     *)
(* start position decides the cursor values) and lets the counting rule of *)
(* module Cursor compute every reply of every paging run LIMIT 1..n+1:     *)
(* items and cursor values.  Ids, values and patterns are sequences of     *)
(* small integers (TLC cannot order strings); the harness maps 1,2,3.. to  *)
(* the bytes 'a','b','c'.. so that the lexicographic order here is the     *)
(* byte order there.                                                        *)
(*                                                                         *)
(* For WITHIN / INTERSECTS / NEARBY the walk order is internal to the      *)
(* R-tree: the generator only supplies the dataset and the filter          *)
(* combinations; the harness records the real replies and module           *)
(* CursorTrace validates them.                                              *)
(***************************************************************************)
EXTENDS Integers, Sequences, FiniteSets, SequencesExt, Json, TLC

CONSTANTS IdSeq,      \* universe of ids (non-empty int sequences), strictly ascending
          ValSeq,     \* values a string object may have (int sequences)
          FMax,       \* field f ranges over 0..FMax (0 = field absent)
          Cells,      \* grid cells 1..Cells (positions of point objects; duplicates allowed)
          PatSeq,     \* MATCH patterns  [kind |-> "all"|"prefix"|"suffix"|"exact"|"prefix1", lit |-> int sequence]
          WhereSeq,   \* filters [kind |-> "none"|"range"|"in"|"eval", lo |-> , hi |-> , vals |-> sequence]
          Density     \* simulation: an id is present with probability d/Density, d random in 1..Density

\* the counting rule (module Cursor); its state machine is not used here
R == INSTANCE Cursor WITH MaxLen <- 0, MaxLimit <- 1, iter <- <<>>, keep <- <<>>, stop <- 1, limit <- 1,
                          cursor <- 0, out <- <<>>, npages <- 0, done <- FALSE

-----------------------------------------------------------------------------
(* Byte strings as integer sequences.                                       *)
LexLess(s, t) == \E i \in 1..Len(t) :
                    /\ \A j \in 1..(i - 1) : j <= Len(s) /\ s[j] = t[j]
                    /\ (i > Len(s) \/ s[i] < t[i])
LexLeq(s, t) == s = t \/ LexLess(s, t)

ASSUME \A i \in 1..(Len(IdSeq) - 1) : LexLess(IdSeq[i], IdSeq[i + 1])
ASSUME \A i \in 1..Len(IdSeq) : Len(IdSeq[i]) >= 1

Rev(s) == [i \in 1..Len(s) |-> s[Len(s) + 1 - i]]

(* MATCH.  Only patterns whose meaning is beyond doubt are generated:      *)
(* "*", literal, literal"*", "*"literal, literal"?" (the literal is not    *)
(* empty and has no metacharacter).                                         *)
Match(p, s) ==
  CASE p.kind = "all"    -> TRUE
    [] p.kind = "exact"  -> s = p.lit
    [] p.kind = "prefix" -> Len(s) >= Len(p.lit) /\ SubSeq(s, 1, Len(p.lit)) = p.lit
    [] p.kind = "suffix" -> Len(s) >= Len(p.lit) /\ SubSeq(s, Len(s) - Len(p.lit) + 1, Len(s)) = p.lit
    [] p.kind = "prefix1" -> Len(s) = Len(p.lit) + 1 /\ SubSeq(s, 1, Len(p.lit)) = p.lit

(* glob.Parse(pattern, desc).Limits for those patterns: none when the       *)
(* pattern starts with "*"; otherwise from the literal head l:              *)
(*   asc : [l, l with the last byte + 1)      desc : [l with last byte + 1, l with last byte - 1] *)
HasLimits(p) == p.kind \in {"prefix", "exact", "prefix1"}
Inc(l) == [l EXCEPT ![Len(l)] = @ + 1]
Dec(l) == [l EXCEPT ![Len(l)] = @ - 1]
LimA(p, desc) == IF desc THEN Inc(p.lit) ELSE p.lit
LimB(p, desc) == IF desc THEN Dec(p.lit) ELSE Inc(p.lit)

(* WHERE f lo hi (inclusive), WHEREIN f n v.., WHEREEVAL "FIELDS.f >= lo and FIELDS.f <= hi" *)
InSeq(x, s) == \E i \in 1..Len(s) : s[i] = x
WhereOK(w, o) ==
  CASE w.kind = "none"  -> TRUE
    [] w.kind = "range" -> w.lo <= o.f /\ o.f <= w.hi
    [] w.kind = "eval"  -> w.lo <= o.f /\ o.f <= w.hi
    [] w.kind = "in"    -> InSeq(o.f, w.vals)

\* first position of seq whose element satisfies T, Len+1 if none
FirstPos(seq, T(_)) ==
  IF \E p \in 1..Len(seq) : T(seq[p])
  THEN CHOOSE p \in 1..Len(seq) : T(seq[p]) /\ \A q \in 1..(p - 1) : ~T(seq[q])
  ELSE Len(seq) + 1

-----------------------------------------------------------------------------
(* Index walks.  ds is the collection in ascending id order.                *)

\* cmdScan: col.Scan (no limits) or col.ScanRange(a, b): objs.Ascend(a) until id >= b,
\* objs.Descend(a) until id <= b.  Every kind of object is in the id index.
ScanWalk(ds, p, desc) ==
  IF ~HasLimits(p)
  THEN LET it == IF desc THEN Rev(ds) ELSE ds IN [it |-> it, stop |-> Len(it) + 1]
  ELSE LET a == LimA(p, desc)  b == LimB(p, desc) IN
       IF desc
       THEN LET it == SelectSeq(Rev(ds), LAMBDA o : LexLeq(o.id, a)) IN
            [it |-> it, stop |-> FirstPos(it, LAMBDA o : LexLeq(o.id, b))]
       ELSE LET it == SelectSeq(ds, LAMBDA o : LexLeq(a, o.id)) IN
            [it |-> it, stop |-> FirstPos(it, LAMBDA o : LexLeq(b, o.id))]

\* the values index holds the string objects only, ordered by value, then id (byValue)
ValLess(x, y) == LexLess(x.val, y.val) \/ (x.val = y.val /\ LexLess(x.id, y.id))
Strings(ds) == SortSeq(SelectSeq(ds, LAMBDA o : o.kind = "s"), ValLess)

\* cmdSearch: col.SearchValues (no limits) or col.SearchValuesRange(a, b) with the pivots
\* (a, id "") and (b, id ""): ascending from the first item >= (a,"") while item < (b,""),
\* descending from the last item <= (a,"") while item > (b,"").  Ids are never empty, so
\* (v, id) <= (a, "") <=> v < a   and   (v, id) > (b, "") <=> v >= b.
SearchWalk(ds, p, desc) ==
  LET ss == Strings(ds) IN
  IF ~HasLimits(p)
  THEN LET it == IF desc THEN Rev(ss) ELSE ss IN [it |-> it, stop |-> Len(it) + 1]
  ELSE LET a == LimA(p, desc)  b == LimB(p, desc) IN
       IF desc
       THEN LET it == SelectSeq(Rev(ss), LAMBDA o : LexLess(o.val, a)) IN
            [it |-> it, stop |-> FirstPos(it, LAMBDA o : LexLess(o.val, b))]
       ELSE LET it == SelectSeq(ss, LAMBDA o : LexLeq(a, o.val)) IN
            [it |-> it, stop |-> FirstPos(it, LAMBDA o : LexLeq(b, o.val))]

\* the walk of a query as the counting rule sees it: ids in walk order, the filter mask, the stop position
Walk(ds, q) ==
  LET w == IF q.fam = "scan" THEN ScanWalk(ds, q.pat, q.desc) ELSE SearchWalk(ds, q.pat, q.desc) IN
  [iter |-> [i \in 1..Len(w.it) |-> w.it[i].id],
   keep |-> [i \in 1..Len(w.it) |->
               /\ Match(q.pat, IF q.fam = "scan" THEN w.it[i].id ELSE w.it[i].val)
               /\ WhereOK(q.where, w.it[i])],
   stop |-> w.stop]

-----------------------------------------------------------------------------
(* Queries and cases.                                                       *)
NP == Len(PatSeq)
NW == Len(WhereSeq)
Fams == <<"scan", "search">>
\* all (family, pattern, filter, direction) combinations, as a sequence
QuerySeq == [k \in 0..(2 * NP * NW * 2 - 1) |->
               [fam   |-> Fams[(k \div (NP * NW * 2)) + 1],
                pat   |-> PatSeq[((k \div (NW * 2)) % NP) + 1],
                where |-> WhereSeq[((k \div 2) % NW) + 1],
                desc  |-> (k % 2) = 1]]
Queries == [k \in 1..(2 * NP * NW * 2) |-> QuerySeq[k - 1]]

\* every paging run of a query: LIMIT 1 .. n+1 where n is the size of the collection
QCase(ds, q) ==
  LET w == Walk(ds, q) IN
  [q    |-> q,
   u    |-> R!Expected(w.iter, w.keep, w.stop),
   walk |-> Len(w.iter),
   runs |-> [n \in 1..(Len(ds) + 1) |-> R!Pages(w.iter, w.keep, w.stop, n)]]

Case(ds) == [ds |-> ds,
             filters |-> [k \in 1..(NP * NW) |-> [pat |-> PatSeq[((k - 1) \div NW) + 1],
                                                 where |-> WhereSeq[((k - 1) % NW) + 1]]],
             qs |-> [k \in 1..Len(Queries) |-> QCase(ds, Queries[k])]]

\* the paging theorem once more, on the concrete walks of a dataset (cheap; the general proof is Cursor's)
TheoremOn(ds) ==
  \A k \in 1..Len(Queries) :
    LET w == Walk(ds, Queries[k])
        e == R!Expected(w.iter, w.keep, w.stop) IN
    \A n \in 1..(Len(ds) + 1) :
      LET ps == R!Pages(w.iter, w.keep, w.stop, n) IN
      /\ R!Concat(ps) = e
      /\ ps[Len(ps)].next = 0
      /\ \A j \in 1..(Len(ps) - 1) : ps[j].next # 0 /\ Len(ps[j].items) = n
      /\ (n = Len(ds) + 1 => Len(ps) = 1)

-----------------------------------------------------------------------------
(* Datasets.                                                                *)
NoOpt  == [kind |-> "none", f |-> 0, cell |-> 0, val |-> <<>>]
Vals   == {ValSeq[i] : i \in 1..Len(ValSeq)}
OptSet == [kind : {"p"}, f : 0..FMax, cell : 1..Cells, val : {<<>>}] \cup
          [kind : {"s"}, f : 0..FMax, cell : {0}, val : Vals]
N == Len(IdSeq)
Compact(m) == SelectSeq([i \in 1..N |-> [id |-> IdSeq[i], kind |-> m[i].kind, f |-> m[i].f,
                                         cell |-> m[i].cell, val |-> m[i].val]],
                        LAMBDA o : o.kind # "none")

VARIABLES ds,      \* the collection, ascending id order
          phase,   \* "new": to be emitted, "done": emitted (simulation also "empty", "dens", "gen")
          m, dens  \* simulation only: the random choice, held in the state so that it is made exactly once
vars == <<ds, phase, m, dens>>

\* ---- exhaustive: every dataset over the universe is an initial state ----
Init == /\ \E mm \in [1..N -> OptSet \cup {NoOpt}] : ds = Compact(mm)
        /\ phase = "new" /\ m = <<>> /\ dens = 0
Emit == /\ phase = "new"
        /\ phase' = "done"
        /\ PrintT(<<"TR", ToJson(Case(ds))>>)
        /\ UNCHANGED <<ds, m, dens>>
Spec == Init /\ [][Emit]_vars
WalkTheorem == phase = "new" => TheoremOn(ds)

\* ---- simulation: one random dataset per behaviour (no set is enumerated) ----
\* (TLC evaluates a function constructor lazily, once per application: the random function
\* is first stored in the state, which fixes it, and only then turned into a dataset)
RE(S) == RandomElement(S)
RandOpt(i) == IF RE(1..3) = 1
              THEN [kind |-> "s", f |-> RE(0..FMax), cell |-> 0, val |-> RE(Vals)]
              ELSE [kind |-> "p", f |-> RE(0..FMax), cell |-> RE(1..Cells), val |-> <<>>]
SimInit  == ds = <<>> /\ phase = "empty" /\ m = <<>> /\ dens = 0
SimDens  == phase = "empty" /\ phase' = "dens" /\ dens' = RE(1..Density) /\ UNCHANGED <<ds, m>>
SimGen   == /\ phase = "dens" /\ phase' = "gen"
            /\ m' = [i \in 1..N |-> IF RE(1..Density) <= dens THEN RandOpt(i) ELSE NoOpt]
            /\ UNCHANGED <<ds, dens>>
SimBuild == phase = "gen" /\ phase' = "new" /\ ds' = Compact(m) /\ UNCHANGED <<m, dens>>
SimSpec  == SimInit /\ [][SimDens \/ SimGen \/ SimBuild \/ Emit]_vars
=============================================================================
