-------------------------------- MODULE Glob --------------------------------
(***************************************************************************)
(* Glob patterns as tile38 documents them (internal/glob/match.go, header  *)
(* comment), and the REQUIREMENT on the id-range shortcut derived from a   *)
(* pattern (internal/glob/glob.go Parse -> Limits).                        *)
(*                                                                         *)
(* Strings and patterns are sequences of bytes (integers 0..255); the      *)
(* order of strings is the byte-wise lexicographic order the B-trees use.  *)
(*                                                                         *)
(*   pattern: { term }                                                     *)
(*   term:  '*'  any sequence of bytes        '?'  any single character    *)
(*          '[' [ '^' ] { range }+ ']'   character class (non-empty)       *)
(*          c    (c not one of * ? \ [)        '\' c   the character c     *)
(*   range: c (c not one of \ - ])  |  '\' c  |  lo '-' hi                 *)
(*                                                                         *)
(* A malformed pattern matches nothing.  This module is an operator module *)
(* (no state): Match is the meaning of MATCH / KEYS / PDEL / HOOKS / CHANS *)
(* / PDELHOOK / PDELCHAN patterns; RangeSound says when a range shortcut   *)
(* is allowed: it must not exclude any matching string.  The limits that   *)
(* glob.Parse computes are NOT specified here - any sound limits are fine. *)
(***************************************************************************)
EXTENDS Integers, Sequences, FiniteSets

Star   == 42      \* *
QMark  == 63      \* ?
LBrack == 91      \* [
RBrack == 93      \* ]
Caret  == 94      \* ^
Dash   == 45      \* -
BSlash == 92      \* \

-----------------------------------------------------------------------------
(* Byte-wise lexicographic order of strings.                                *)
MinI(a, b) == IF a < b THEN a ELSE b
SLess(a, b) ==
  \/ \E i \in 1..MinI(Len(a), Len(b)) : a[i] < b[i] /\ \A j \in 1..(i - 1) : a[j] = b[j]
  \/ Len(a) < Len(b) /\ \A j \in 1..Len(a) : a[j] = b[j]
SLeq(a, b) == ~SLess(b, a)

(* All strings of length <= n over an ascending alphabet (a sequence of     *)
(* bytes), as a sequence in ascending byte order.                           *)
RECURSIVE ConcatN(_, _)
ConcatN(f, n) == IF n = 0 THEN <<>> ELSE ConcatN(f, n - 1) \o f[n]
RECURSIVE StrsUpTo(_, _)
StrsUpTo(alpha, n) ==
  IF n = 0 THEN << <<>> >>
  ELSE LET sub == StrsUpTo(alpha, n - 1)
       IN << <<>> >> \o ConcatN([i \in 1..Len(alpha) |-> [j \in 1..Len(sub) |-> <<alpha[i]>> \o sub[j]]], Len(alpha))

-----------------------------------------------------------------------------
(* Parsing a pattern into terms.  Every term is a record of one shape:      *)
(*   k   "star" | "any" | "lit" | "cls"                                     *)
(*   c   the byte of a literal     esc  the literal was written as '\' c    *)
(*   neg negated class             rs   sequence of <<lo, hi>> ranges       *)
Term(k, c, esc, neg, rs) == [k |-> k, c |-> c, esc |-> esc, neg |-> neg, rs |-> rs]
StarT     == Term("star", 0, FALSE, FALSE, <<>>)
AnyT      == Term("any", 0, FALSE, FALSE, <<>>)
LitT(c, e) == Term("lit", c, e, FALSE, <<>>)
ClsT(n, rs) == Term("cls", 0, FALSE, n, rs)

\* A class member must be a character.  The matcher works on UTF-8 runes: a byte >= 0x80
\* that is not part of a valid sequence is not a character and makes the class malformed
\* (match.go getEsc).  The statement is silent about invalid UTF-8 inside a class, so this
\* is taken as coded; outside classes every byte is matched as itself.
ClassCharOK(c) == c < 128

BadCh == [ok |-> FALSE, c |-> 0, next |-> 0]
ClassChar(p, j) ==
  IF j > Len(p) \/ p[j] = Dash \/ p[j] = RBrack THEN BadCh
  ELSE IF p[j] = BSlash
       THEN (IF j + 1 > Len(p) \/ ~ClassCharOK(p[j + 1]) THEN BadCh ELSE [ok |-> TRUE, c |-> p[j + 1], next |-> j + 2])
       ELSE (IF ~ClassCharOK(p[j]) THEN BadCh ELSE [ok |-> TRUE, c |-> p[j], next |-> j + 1])

BadRs == [ok |-> FALSE, rs |-> <<>>, next |-> 0]
RECURSIVE Ranges(_, _, _)
Ranges(p, j, acc) ==
  IF j > Len(p) THEN BadRs                                   \* class never closed
  ELSE IF p[j] = RBrack /\ acc # <<>> THEN [ok |-> TRUE, rs |-> acc, next |-> j + 1]
  ELSE LET lo == ClassChar(p, j) IN
       IF ~lo.ok THEN BadRs                                  \* includes ']' with no range yet: empty class
       ELSE IF lo.next <= Len(p) /\ p[lo.next] = Dash
            THEN LET hi == ClassChar(p, lo.next + 1) IN
                 IF ~hi.ok THEN BadRs ELSE Ranges(p, hi.next, Append(acc, <<lo.c, hi.c>>))
            ELSE Ranges(p, lo.next, Append(acc, <<lo.c, lo.c>>))

BadP == [ok |-> FALSE, ts |-> <<>>]
RECURSIVE ParseFrom(_, _, _)
ParseFrom(p, i, acc) ==
  IF i > Len(p) THEN [ok |-> TRUE, ts |-> acc]
  ELSE LET c == p[i] IN
       IF c = Star THEN ParseFrom(p, i + 1, Append(acc, StarT))
       ELSE IF c = QMark THEN ParseFrom(p, i + 1, Append(acc, AnyT))
       ELSE IF c = BSlash
            THEN (IF i + 1 > Len(p) THEN BadP ELSE ParseFrom(p, i + 2, Append(acc, LitT(p[i + 1], TRUE))))
       ELSE IF c = LBrack
            THEN LET neg == i + 1 <= Len(p) /\ p[i + 1] = Caret
                     r   == Ranges(p, IF neg THEN i + 2 ELSE i + 1, <<>>)
                 IN IF ~r.ok THEN BadP ELSE ParseFrom(p, r.next, Append(acc, ClsT(neg, r.rs)))
       ELSE ParseFrom(p, i + 1, Append(acc, LitT(c, FALSE)))
Parse(p) == ParseFrom(p, 1, <<>>)

-----------------------------------------------------------------------------
(* Matching.                                                                *)
One(t, b) ==
  CASE t.k = "any" -> TRUE
    [] t.k = "lit" -> b = t.c
    [] t.k = "cls" -> (\E i \in 1..Len(t.rs) : t.rs[i][1] <= b /\ b <= t.rs[i][2]) # t.neg
    [] OTHER -> FALSE

RECURSIVE MT(_, _, _, _)      \* terms ts from index i match s from position j to the end
MT(ts, i, s, j) ==
  IF i > Len(ts) THEN j > Len(s)
  ELSE IF ts[i].k = "star" THEN \E n \in j..(Len(s) + 1) : MT(ts, i + 1, s, n)
  ELSE j <= Len(s) /\ One(ts[i], s[j]) /\ MT(ts, i + 1, s, j + 1)

MatchParsed(r, s) == r.ok /\ MT(r.ts, 1, s, 1)
Match(p, s) == MatchParsed(Parse(p), s)          \* malformed pattern: no match

-----------------------------------------------------------------------------
(* The range shortcut.  Limits are a pair of strings used by the index walk *)
(* (collection.ScanRange / SearchValuesRange):                              *)
(*   ascending : visit ids with lo <= id, stop at the first id >= hi        *)
(*   descending: visit ids with id <= lo, stop at the first id <= hi        *)
(*   <<"", "">> : no limits, visit everything.                              *)
InRange(s, lo, hi, desc) ==
  \/ lo = <<>> /\ hi = <<>>
  \/ ~desc /\ SLeq(lo, s) /\ SLess(s, hi)
  \/ desc /\ SLeq(s, lo) /\ SLess(hi, s)

\* The walk over the VALUE index (collection.SearchValuesRange, SEARCH ... MATCH) differs at the two
\* end points when descending: it visits the values v with hi <= v < lo.
InRangeValues(s, lo, hi, desc) ==
  IF desc THEN (lo = <<>> /\ hi = <<>>) \/ (SLeq(hi, s) /\ SLess(s, lo))
  ELSE InRange(s, lo, hi, FALSE)

\* KEYS and the hook registry (keys.go, hooks.go forEachHookByPattern) walk upwards from lo and stop
\* at the first name > hi: the upper limit is inclusive.
InRangeInclusive(s, lo, hi) == (lo = <<>> /\ hi = <<>>) \/ (SLeq(lo, s) /\ SLeq(s, hi))

\* THE REQUIREMENT (C12): the shortcut never changes the result.
RangeSound(p, lo, hi, desc, Strs) == \A s \in Strs : Match(p, s) => InRange(s, lo, hi, desc)

(* Shape of the literal prefix of a pattern - the part glob.Parse derives   *)
(* the limits from.  Used to name the class of a pattern in reports.        *)
FirstWild(ts) == IF \E i \in 1..Len(ts) : ts[i].k # "lit"
                 THEN CHOOSE i \in 1..Len(ts) : ts[i].k # "lit" /\ \A j \in 1..(i - 1) : ts[j].k = "lit"
                 ELSE 0
LitPrefix(ts) == LET w == FirstWild(ts)
                     n == IF w = 0 THEN Len(ts) ELSE w - 1
                 IN [i \in 1..n |-> ts[i].c]
PrefixClass(p) ==
  LET r == Parse(p)
      w == FirstWild(r.ts)
      n == IF w = 0 THEN Len(r.ts) ELSE w - 1
  IN IF ~r.ok THEN "malformed"
     ELSE IF w = 1 /\ r.ts[1].k # "star" THEN "meta-first"          \* ? or [..] in first position
     ELSE IF w > 1 /\ r.ts[w - 1].c = 255 THEN "ff-carry"           \* literal prefix ends in 0xff, wildcard follows
     ELSE IF \E i \in 1..n : r.ts[i].esc THEN "escape-prefix"      \* an escape before the first wildcard
     ELSE "plain"

(* One sound way to compute limits (the intended design): the UNESCAPED     *)
(* literal prefix; no limits when it is empty, when the pattern is          *)
(* malformed, or when the prefix consists of 0xff bytes only; the upper     *)
(* bound strips trailing 0xff before incrementing (carry).                  *)
RECURSIVE StripFF(_)
StripFF(s) == IF s # <<>> /\ s[Len(s)] = 255 THEN StripFF(SubSeq(s, 1, Len(s) - 1)) ELSE s
Succ(s) == LET t == StripFF(s) IN IF t = <<>> THEN <<>> ELSE [t EXCEPT ![Len(t)] = t[Len(t)] + 1]
IntendedLimits(p, desc) ==
  LET r == Parse(p)
      pre == LitPrefix(r.ts)
      up == Succ(pre)
  IN IF ~r.ok \/ pre = <<>> \/ up = <<>> THEN <<<<>>, <<>>>>
     ELSE IF desc THEN <<up, SubSeq(pre, 1, Len(pre) - 1)>>   \* every string with prefix pre is > its proper prefix
     ELSE <<pre, up>>

(* glob.Parse as coded (named deviation, used only to show on the design    *)
(* that the coded limits break RangeSound; never used as an oracle).        *)
RawPrefixLen(p) == IF \E i \in 1..Len(p) : p[i] \in {LBrack, Star, QMark}
                   THEN (CHOOSE i \in 1..Len(p) : p[i] \in {LBrack, Star, QMark}
                                                  /\ \A j \in 1..(i - 1) : p[j] \notin {LBrack, Star, QMark}) - 1
                   ELSE Len(p)
CodedLimitsAsc(p) ==
  LET n == RawPrefixLen(p)
      a == SubSeq(p, 1, n)
  IN IF p = <<>> \/ p[1] = Star THEN <<<<>>, <<>>>>
     ELSE IF n = 0 THEN <<p, p>>
     ELSE IF a[n] = 255 THEN <<a, Append(a, 0)>>
     ELSE <<a, [a EXCEPT ![n] = a[n] + 1]>>
=============================================================================
