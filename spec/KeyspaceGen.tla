---------------------------- MODULE KeyspaceGen ----------------------------
(* Behaviour generator for Keyspace: the state is the abstract dataset, the *)
(* history variable records every command with its expected replies.  It is *)
(* hidden from the VIEW, so TLC's breadth-first search visits every         *)
(* distinct dataset once and the action property Emit prints one shortest   *)
(* behaviour per transition of the reachable graph (model -> code replay).  *)
(* In simulation mode EmitAtDepth prints each random behaviour once.        *)
EXTENDS Keyspace, Json

CONSTANTS MaxHist,     \* depth bound of generated behaviours
          WithJson,    \* generate JSET / JDEL / JGET
          TwoUpdates,  \* also generate SET/FSET with two field updates
          WithHooks    \* generate hook / channel commands

VARIABLES st, hist
vars == <<st, hist>>

Fu1 == {<< <<n, v>> >> : n \in FNames, v \in FValSet}
Fu2 == IF TwoUpdates THEN {<< <<n, v>>, <<m, w>> >> : n \in FNames, v \in FValSet, m \in FNames, w \in FValSet}
       ELSE {}
FUs == {<<>>} \cup Fu1 \cup Fu2

SetCmds  == {[op |-> "set", k |-> k, id |-> i, g |-> g, fu |-> fu, ex |-> ex, cond |-> cd] :
               k \in Keys, i \in Ids, g \in GeoSet, fu \in FUs, ex \in BOOLEAN, cd \in {"-", "nx", "xx"}}
FsetCmds == {[op |-> "fset", k |-> k, id |-> i, xx |-> xx, fu |-> fu] :
               k \in Keys, i \in Ids, xx \in BOOLEAN, fu \in Fu1 \cup Fu2}
KI(op)   == {[op |-> op, k |-> k, id |-> i] : k \in Keys, i \in Ids}
DelCmds  == {[op |-> "del", k |-> k, id |-> i, e404 |-> e] : k \in Keys, i \in Ids, e \in BOOLEAN}
PdelCmds == {[op |-> "pdel", k |-> k, p |-> p] : k \in Keys, p \in PatSet}
KCmds(op) == {[op |-> op, k |-> k] : k \in Keys}
RenCmds  == {[op |-> "rename", k |-> k, k2 |-> k2, nx |-> nx] : k \in Keys, k2 \in Keys, nx \in BOOLEAN}
GetCmds  == {[op |-> "get", k |-> k, id |-> i, wf |-> wf] : k \in Keys, i \in Ids, wf \in BOOLEAN}
KINCmds(op) == {[op |-> op, k |-> k, id |-> i, n |-> n] : k \in Keys, i \in Ids, n \in FNames}
KeysCmds == {[op |-> "keys", p |-> p] : p \in PatSet}
ScanCmds == {[op |-> "scan", k |-> k, p |-> p, desc |-> d, lim |-> l, out |-> o] :
               k \in Keys, p \in PatSet, d \in BOOLEAN, l \in 0..(Len(IdSeq) + 1), o \in {"ids", "count"}}
HookCmds == IF ~WithHooks THEN {} ELSE
            {[op |-> "sethook", h |-> h, k |-> k, chan |-> ch] : h \in HNames, k \in Keys, ch \in BOOLEAN}
DelhCmds == IF ~WithHooks THEN {} ELSE
            {[op |-> "delhook", h |-> h, chan |-> ch] : h \in HNames, ch \in BOOLEAN}
PdelhCmds == IF ~WithHooks THEN {} ELSE
            {[op |-> "pdelhook", p |-> p, chan |-> ch] : p \in PatSet, ch \in BOOLEAN}
HooksCmds == IF ~WithHooks THEN {} ELSE
            {[op |-> "hooks", p |-> p, chan |-> ch] : p \in PatSet, ch \in BOOLEAN}

JMembers == {"m:a", "m:b"}
JVals == {"j:1", "j:x"}
JsetCmds == IF ~WithJson THEN {} ELSE
            {[op |-> "jset", k |-> k, id |-> i, m |-> m, v |-> v] : k \in Keys, i \in Ids, m \in JMembers, v \in JVals}
JdelCmds == IF ~WithJson THEN {} ELSE
            {[op |-> "jdel", k |-> k, id |-> i, m |-> m] : k \in Keys, i \in Ids, m \in JMembers}
JgetCmds == IF ~WithJson THEN {} ELSE
            {[op |-> "jget", k |-> k, id |-> i, m |-> m] : k \in Keys, i \in Ids, m \in JMembers \cup {"whole"}}

Init == st = EmptyState /\ hist = <<>>

Step(c) == LET r == Apply(st, c) IN
           /\ Generable(st, c)
           /\ st' = r.st
           /\ hist' = Append(hist, [c |-> c, rr |-> r.rr, rj |-> r.rj, upd |-> r.upd])

Next == /\ Len(hist) < MaxHist
        /\ \/ \E c \in SetCmds : Step(c)
           \/ \E c \in FsetCmds : Step(c)
           \/ \E c \in DelCmds : Step(c)
           \/ \E c \in PdelCmds : Step(c)
           \/ \E c \in KCmds("drop") : Step(c)
           \/ \E c \in RenCmds : Step(c)
           \/ Step([op |-> "flushdb"])
           \/ \E c \in KI("expire") : Step(c)
           \/ \E c \in KI("persist") : Step(c)
           \/ \E c \in KI("ttl") : Step(c)
           \/ \E c \in GetCmds : Step(c)
           \/ \E c \in KI("exists") : Step(c)
           \/ \E c \in KINCmds("fexists") : Step(c)
           \/ \E c \in KINCmds("fget") : Step(c)
           \/ \E c \in KCmds("type") : Step(c)
           \/ \E c \in KeysCmds : Step(c)
           \/ \E c \in ScanCmds : Step(c)
           \/ \E c \in JsetCmds : Step(c)
           \/ \E c \in JdelCmds : Step(c)
           \/ \E c \in JgetCmds : Step(c)
           \/ \E c \in HookCmds : Step(c)
           \/ \E c \in DelhCmds : Step(c)
           \/ \E c \in PdelhCmds : Step(c)
           \/ \E c \in HooksCmds : Step(c)

Spec == Init /\ [][Next]_vars
View == st

\* ---- properties of the model (C01) ----
Last == hist[Len(hist)]
\* a command that returns an error or a negative answer changes nothing; reads change nothing
FailureChangesNothing ==
  [][LET h == hist'[Len(hist')] IN
       (h.rr.t \in {"err", "nil"} \/ (h.rr.t = "int" /\ h.rr.n <= 0 /\ h.c.op # "scan") \/ IsRead(h.c)) => st' = st]_vars
\* what is logged is exactly what may change the state: not updated => unchanged
NotUpdatedUnchanged == [][~hist'[Len(hist')].upd => st' = st]_vars
\* a collection exists iff it holds an object: by construction of the representation;
\* the stored field tokens are always "stored" forms
StoredForms == \A k \in Keys, i \in Ids, n \in FNames : st.cols[k][i].f[n] \in FValStored

\* ---- emission ----
Emit == [][PrintT(<<"TR", ToJson([h |-> hist', post |-> st'])>>)]_vars
EmitAtDepth == Len(hist) < MaxHist \/ PrintT(<<"TR", ToJson([h |-> hist, post |-> st])>>)
=============================================================================
