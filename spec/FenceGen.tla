------------------------------ MODULE FenceGen ------------------------------
(* Behaviour generator for Fence (model -> code).  The history is hidden    *)
(* from the VIEW, so TLC's breadth-first search visits every configuration  *)
(* (positions x field values x pending deadline) once and the action        *)
(* property Emit prints one shortest behaviour per transition of the        *)
(* reachable graph: every SET of every object to every cell with every      *)
(* field option, every FSET, DEL, PDEL, DROP and expiry from every          *)
(* configuration - i.e. every (previous, new) position class including the  *)
(* first appearance - with the notifications every fence must deliver.      *)
EXTENDS Fence, Json

Emit == [][PrintT(<<"TR", ToJson([ids |-> IdSeq, h |-> hist'])>>)]_vars
=============================================================================
