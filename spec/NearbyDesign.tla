---------------------------- MODULE NearbyDesign ----------------------------
(* TLC on the design of NEARBY (C13): the implementation model of Nearby    *)
(* (best-first traversal of a tree with lower bounds, radius cut-off,       *)
(* filters, LIMIT / CURSOR counting) answers what the statement demands.    *)
EXTENDS Nearby

(* Design check: on every reachable dataset, for every query of a small     *)
(* battery and every tree, the implementation model answers what the        *)
(* statement demands.  (CONSTANTS of the battery: DesignK, DesignGroups,    *)
(* DesignPages; radii at, just inside and just outside every table          *)
(* distance.)                                                               *)
CONSTANTS DesignK, DesignGroups, DesignPages

DesignRadii(q) ==
  {0 - 1, 0} \cup
  {r \in UNION {{DistT[q][s], DistT[q][s] + Tol(DistT[q][s]) + 1, DistT[q][s] - Tol(DistT[q][s]) - 1} :
                 s \in {x \in Shapes : IndexedT[x]}} : r > 0}

Blank == [q |-> 1, k |-> 0, r |-> 0 - 1, pat |-> 1, wh |-> 0, dist |-> TRUE, pages |-> <<>>]

DesignQueries ==
  UNION {{[Blank EXCEPT !.q = q, !.k = k, !.r = r, !.pat = p, !.wh = w] :
            k \in DesignK, r \in DesignRadii(q), p \in PatIdx, w \in 0..1} : q \in Queries}

DesignOK ==
  \A grp \in [Objs -> 1..DesignGroups] :
    \A qr \in DesignQueries :
      \A mp \in DesignPages :
        Accepts(at, fv, Serve(at, fv, qr, grp, mp))

\* consequences stated directly (each is implied by Accepts; kept as separate, readable invariants)
SortedReplies ==
  \A grp \in [Objs -> 1..DesignGroups], q \in Queries :
    LET run == Serve(at, fv, [Blank EXCEPT !.q = q, !.k = Cardinality(Objs) + 1], grp, 1)
        it  == run.pages[1].items
    IN /\ \A i \in 1..(Len(it) - 1) : it[i].mm <= it[i + 1].mm
       /\ {it[i].o : i \in 1..Len(it)} = {o \in Objs : Present(at, o)}
=============================================================================
