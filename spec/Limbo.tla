------------------------------- MODULE Limbo -------------------------------
(***************************************************************************)
(* An object between its deadline and the sweep ("limbo"), and the log.    *)
(*                                                                         *)
(* internal/server/expire.go: a deadline that has passed does nothing by   *)
(* itself; every 100 ms the sweeper deletes the overdue objects and logs   *)
(* one DEL for each.  Until then the object is PRESENT for every command:  *)
(* NX is refused, XX accepted, FSET / EXPIRE / PERSIST work on it (the     *)
(* last two revive it).  The log stores SET ... EX seconds relative, so a  *)
(* restart replays the commands with no time passing between them: during  *)
(* replay no object is ever in limbo.                                      *)
(*                                                                         *)
(* C03 needs: whatever the commands did while the object was in limbo, the *)
(* log replays to the state the server serves (RestartEquivalence, after   *)
(* every overdue object has been swept on both sides: Quiet).              *)
(* C14 needs: the object disappears only through a logged DEL (OnlyByDel). *)
(*                                                                         *)
(* LimboMeans: what a command's existence test sees for an object in limbo *)
(*   "present"   as coded                                                  *)
(*   "absent"    a well-meant lazy expiration in the NX / XX test of SET    *)
(*               (the commands stay as logged): refuted - the replay sees  *)
(*               the object present, refuses the NX that was acknowledged  *)
(* One object.  A behaviour is a sequence of script segments (each one     *)
(* EVAL: the sweeper cannot run inside) separated by sweeps.               *)
(***************************************************************************)
EXTENDS Integers, Sequences, TLC

CONSTANTS MaxOps, LimboMeans

VARIABLES obj,   \* [v |-> 0 (absent) | 1..: value id, ex |-> "none" | "near" | "passed" | "far", f |-> field value]
          log,   \* sequence of logged commands
          hist   \* what was done (ops, with replies), for the replay on the real server
vars == <<obj, log, hist>>

Absent == [v |-> 0, ex |-> "none", f |-> 0]
Present(o) == o.v # 0
\* what the existence test of SET NX / XX sees
Seen(o) == Present(o) /\ ~(o.ex = "passed" /\ LimboMeans = "absent")

\* ---- the commands: [o: object after, lg: logged?, r: reply class]
Cmd(o, c) ==
  CASE c.op = "setex"  -> [o |-> [v |-> c.v, ex |-> "near", f |-> o.f], lg |-> TRUE, r |-> "ok"]
    [] c.op = "set"    -> [o |-> [v |-> c.v, ex |-> "none", f |-> o.f], lg |-> TRUE, r |-> "ok"]
    [] c.op = "setnx"  -> IF Seen(o) THEN [o |-> o, lg |-> FALSE, r |-> "nil"]
                          ELSE [o |-> [v |-> c.v, ex |-> "none", f |-> o.f], lg |-> TRUE, r |-> "ok"]
    [] c.op = "setxx"  -> IF ~Seen(o) THEN [o |-> o, lg |-> FALSE, r |-> "nil"]
                          ELSE [o |-> [v |-> c.v, ex |-> "none", f |-> o.f], lg |-> TRUE, r |-> "ok"]
    [] c.op = "fset"   -> IF ~Present(o) THEN [o |-> o, lg |-> FALSE, r |-> "err"]
                          ELSE [o |-> [o EXCEPT !.f = c.v], lg |-> o.f # c.v, r |-> IF o.f # c.v THEN "one" ELSE "zero"]
    [] c.op = "far"    -> IF ~Present(o) THEN [o |-> o, lg |-> FALSE, r |-> "zero"]     \* EXPIRE key id 1000
                          ELSE [o |-> [o EXCEPT !.ex = "far"], lg |-> TRUE, r |-> "one"]
    [] c.op = "persist" -> IF ~Present(o) THEN [o |-> o, lg |-> FALSE, r |-> "zero"]
                           ELSE IF o.ex = "none" THEN [o |-> o, lg |-> FALSE, r |-> "zero"]
                           ELSE [o |-> [o EXCEPT !.ex = "none"], lg |-> TRUE, r |-> "one"]
    [] c.op = "del"    -> IF ~Present(o) THEN [o |-> o, lg |-> FALSE, r |-> "zero"]
                          ELSE [o |-> Absent, lg |-> TRUE, r |-> "one"]
\* (SET keeps the fields of the object it replaces; a SET of an absent id starts without fields)
Norm(o) == IF Present(o) THEN o ELSE Absent

\* every writing op stores its own value, so that the object served tells who wrote it
OpVal == [setex |-> 1, set |-> 2, setnx |-> 3, setxx |-> 4, fset |-> 1, far |-> 0, persist |-> 0, del |-> 0]
Ops == DOMAIN OpVal

Init == obj = Absent /\ log = <<>> /\ hist = <<>>

Do(c) ==
  /\ Len(hist) < MaxOps
  /\ LET x == Cmd(obj, c) IN
     /\ obj' = Norm(x.o)
     /\ log' = IF x.lg THEN Append(log, c) ELSE log
     /\ hist' = Append(hist, [op |-> c.op, v |-> c.v, r |-> x.r])
\* the deadline passes while the script waits (no command, nothing logged)
Pass == /\ Len(hist) < MaxOps /\ obj.ex = "near"
        /\ obj' = [obj EXCEPT !.ex = "passed"] /\ hist' = Append(hist, [op |-> "pass", v |-> 0, r |-> ""])
        /\ UNCHANGED log
\* the sweeper, between two scripts: every overdue object goes, by a logged DEL
Sweep == /\ Len(hist) < MaxOps /\ obj.ex \in {"near", "passed"}
         /\ obj' = Absent /\ log' = Append(log, [op |-> "del", v |-> 0])
         /\ hist' = Append(hist, [op |-> "sweep", v |-> 0, r |-> ""])
Next == (\E op \in Ops : Do([op |-> op, v |-> OpVal[op]])) \/ Pass \/ Sweep
Spec == Init /\ [][Next]_vars
View == <<obj, log>>

\* ---- restart: the log replayed with no time passing, "present" semantics are irrelevant (nothing is in limbo)
RECURSIVE Replay(_, _)
Replay(o, l) ==
  IF l = <<>> THEN o
  ELSE Replay(Norm(Cmd(o, Head(l)).o), Tail(l))
\* both sides after every overdue object has been swept
Quiet(o) == IF o.ex \in {"near", "passed"} THEN Absent ELSE o
RestartEquivalence == Quiet(Replay(Absent, log)) = Quiet(obj)
\* an object that was present and is absent now went by a logged DEL (sweeper's or client's): the last entry that
\* concerns it is a del
OnlyByDel == (~Present(obj) /\ log # <<>>) => log[Len(log)].op = "del"
=============================================================================
