------------------------------- MODULE Nearby -------------------------------
(***************************************************************************)
(* C13  NEARBY key POINT lat lon [meters] returns nearest neighbours in    *)
(* distance order.                                                         *)
(*                                                                         *)
(* A collection holds known objects 1..Len(IdSeq); each is absent (0) or   *)
(* carries one of the shapes 1..NShape (a point, an extended object - a    *)
(* rectangle, LineString, Polygon, MultiPoint -, or a string value that    *)
(* has no geometry) and a field value f in {0,1}.  Distances are NOT       *)
(* computed here: Dist[q][s] is an integer table (millimetres) from the    *)
(* harness' own geometry (great circle for a point, smallest great-circle  *)
(* distance to the bounding rectangle for an extended shape) for the       *)
(* concrete coordinates the shapes and the query points stand for.         *)
(* Besides the known objects a collection may hold anonymous far objects   *)
(* FarIds, of which only a lower bound FarLB[q] of the distance is known   *)
(* (they deepen the R-tree of the real server).                            *)
(*                                                                         *)
(* Three parts:                                                            *)
(*  1. the dataset and its update history (Set / Del; overwrite of a       *)
(*     point by an extended object or a string and back);                  *)
(*  2. the STATEMENT of C13 as a predicate on an observed reply            *)
(*     (Defects / Accepts) - used to judge replies of the real server;     *)
(*  3. a model of the implementation (best-first traversal of a tree with  *)
(*     lower bounds, radius cut-off, filters, LIMIT and CURSOR counting:   *)
(*     collection.Nearby, cmdNearby, scanWriter.pushObject) whose replies  *)
(*     TLC checks against the statement on every reachable dataset (module *)
(*     NearbyDesign), with named broken variants that TLC refutes.         *)
(*                                                                         *)
(* Tolerances (all CONSTANTS):  metres are compared within Tol(d) =        *)
(* max(TolAbs, d / TolDiv) (1 m / 0.5 %); membership of an object whose    *)
(* distance is within Tol of the radius is not judged; two objects whose   *)
(* table distances differ by at most OrdEps (float noise, millimetres) may *)
(* come in either order.                                                   *)
(***************************************************************************)
EXTENDS Integers, Sequences, FiniteSets, TLC

CONSTANTS
  IdSeq,        \* ids of the known objects; an id is a sequence of 1-character strings
  NShape,       \* shapes are 1..NShape (0 = the object does not exist)
  NQuery,       \* query points are 1..NQuery
  Dist,         \* Dist[q][s] : distance in millimetres from query point q to shape s
  Indexed,      \* Indexed[s] : the shape has a geometry (FALSE for a string value)
  InitAt,       \* InitAt[o]  : shape of object o in a fresh collection (0 = absent)
  InitF,        \* InitF[o]   : its field value
  Movers,       \* objects the generators move (a subset of the known objects)
  GenShapes,    \* shapes the generators place
  FarIds,       \* ids of the anonymous far objects (always present, never matched by WHERE)
  FarLB,        \* FarLB[q] : every far object is at least this far from q
  Pats,         \* MATCH patterns (sequences of characters; "*" and "?" are wildcards); Pats[1] = <<"*">>
  DefaultLimit, \* limit of a query without LIMIT (100 in the code)
  OrdEps,       \* ordering margin in millimetres
  TolAbs,       \* absolute tolerance on metres, in millimetres
  TolDiv,       \* relative tolerance = 1 / TolDiv
  MaxHist,      \* length bound of generated histories
  Variant       \* "ok" or the name of a broken variant of the implementation model

\* TLC re-evaluates the definition that overrides a CONSTANT (X <- MCX in the configuration) at EVERY reference
\* (measured); a constant-level definition of this module is evaluated once.  All tables are read through these.
IdSeqT     == IdSeq
DistT      == Dist
IndexedT   == Indexed
InitAtT    == InitAt
InitFT     == InitF
FarIdsT    == FarIds
FarLBT     == FarLB
PatsT      == Pats
MoversT    == Movers
GenShapesT == GenShapes

Objs    == 1..Len(IdSeqT)
Shapes  == 1..NShape
Queries == 1..NQuery
Fars    == 1..Len(FarIdsT)
PatIdx  == 1..Len(PatsT)

Max(a, b) == IF a >= b THEN a ELSE b
Min(a, b) == IF a <= b THEN a ELSE b
Abs(a)    == IF a >= 0 THEN a ELSE 0 - a
Range(s)  == {s[i] : i \in 1..Len(s)}
Tol(d)    == Max(TolAbs, d \div TolDiv)

\* (the tables themselves are not quantified over in an ASSUME: TLC evaluates assumptions with the overriding
\* definitions un-cached, which is quadratic in the table size; `nearby-world' guarantees Dist >= 0 for shapes
\* with a geometry)
ASSUME ConstantsSane ==
  /\ PatsT[1] = <<"*">>
  /\ MoversT \subseteq Objs /\ GenShapesT \subseteq Shapes
  /\ Len(InitAtT) = Len(IdSeqT) /\ Len(InitFT) = Len(IdSeqT)
  /\ OrdEps >= 0 /\ TolAbs >= 0 /\ TolDiv >= 1 /\ DefaultLimit >= 1

-----------------------------------------------------------------------------
(* Glob matching on character sequences (internal/glob Match restricted to  *)
(* literals, "*" and "?").                                                  *)
RECURSIVE GlobMatch(_, _)
GlobMatch(p, s) ==
  IF p = <<>> THEN s = <<>>
  ELSE IF Head(p) = "*" THEN GlobMatch(Tail(p), s) \/ (s # <<>> /\ GlobMatch(p, Tail(s)))
  ELSE s # <<>> /\ (Head(p) = "?" \/ Head(p) = Head(s)) /\ GlobMatch(Tail(p), Tail(s))

\* evaluated once: the known / far objects every pattern selects
\* (TLCEval: a function constructor is otherwise re-evaluated at every application)
PatKnown == TLCEval([p \in PatIdx |-> {o \in Objs : GlobMatch(PatsT[p], IdSeqT[o])}])
PatFar   == TLCEval([p \in PatIdx |-> {j \in Fars : GlobMatch(PatsT[p], FarIdsT[j])}])

-----------------------------------------------------------------------------
(* 1. Dataset and history.                                                  *)
VARIABLES at,    \* at[o] : shape of object o, 0 = absent
          fv,    \* fv[o] : value of field f of object o (0 while absent)
          hist   \* generated history
vars == <<at, fv, hist>>

InitState == at = InitAtT /\ fv = InitFT

Set(o, s, f) ==
  /\ at' = [at EXCEPT ![o] = s]
  /\ fv' = [fv EXCEPT ![o] = f]
  /\ hist' = Append(hist, [op |-> "set", o |-> o, s |-> s, f |-> f])

Del(o) ==
  /\ at[o] # 0
  /\ at' = [at EXCEPT ![o] = 0]
  /\ fv' = [fv EXCEPT ![o] = 0]
  /\ hist' = Append(hist, [op |-> "del", o |-> o, s |-> 0, f |-> 0])

\* the generators give the field a value that is a function of (object, shape): no extra state
FOf(o, s) == (o + s) % 2

Init == InitState /\ hist = <<>>
Next == /\ Len(hist) < MaxHist
        /\ \/ \E o \in MoversT, s \in GenShapesT : Set(o, s, FOf(o, s))
           \/ \E o \in MoversT : Del(o)
Spec == Init /\ [][Next]_vars
View == <<at, fv>>

TypeOK == /\ at \in [Objs -> 0..NShape]
          /\ fv \in [Objs -> 0..1]

-----------------------------------------------------------------------------
(* 2. The statement, as a judgement of one observed NEARBY run.             *)
(*                                                                          *)
(* A query qr is a record                                                   *)
(*   q    query point          k   LIMIT (0 = none given)                   *)
(*   r    radius in mm (-1 = none given, 0 = the literal 0)                 *)
(*   pat  MATCH pattern index (1 = none / "*")      wh  1 = WHERE f 1 1     *)
(*   dist DISTANCE requested                                                *)
(*   pages  << [items |-> << [o, mm] ... >>, next |-> cursor] ... >>        *)
(* pages is the reply to the query (one page) or the replies of a paging    *)
(* run (each next page asked with the cursor of the previous one; the run   *)
(* may have been abandoned before the cursor became 0).  In an item o > 0   *)
(* is a known object, o < 0 the far object -o, o = 0 an id the collection   *)
(* never held; mm is the reported distance (-1 = none reported).            *)

Present(a, o) == a[o] # 0 /\ IndexedT[a[o]]

\* the objects the query ranges over: present, with a geometry, passing MATCH and WHERE
Cand(a, f, qr) == {o \in PatKnown[qr.pat] : Present(a, o) /\ (qr.wh = 0 \/ f[o] = 1)}
FarCand(qr)    == IF qr.wh = 0 THEN PatFar[qr.pat] ELSE {}

Limit(qr) == IF qr.k = 0 THEN DefaultLimit ELSE qr.k

\* radius 0 is read as "no radius" (as coded; the statement speaks of a positive radius only)
HasRadius(qr) == qr.r > 0

Items(qr) == LET RECURSIVE Cat(_)
                 Cat(i) == IF i > Len(qr.pages) THEN <<>> ELSE qr.pages[i].items \o Cat(i + 1)
             IN Cat(1)
Complete(qr) == qr.pages[Len(qr.pages)].next = 0

\* item j is out of order: its table distance is more than OrdEps below that of an earlier item
\* (keys[i] = -1: the item has no table distance; kn[i]: the item is a known object)
RECURSIVE Unsorted(_, _, _, _)
Unsorted(keys, kn, i, mx) ==
  /\ i <= Len(keys)
  /\ \/ kn[i] /\ keys[i] >= 0 /\ keys[i] + OrdEps < mx
     \/ Unsorted(keys, kn, i + 1, Max(mx, keys[i]))

RECURSIVE SeqMax(_, _, _)
SeqMax(s, i, mx) == IF i > Len(s) THEN mx ELSE SeqMax(s, i + 1, Max(mx, s[i]))

\* the reasons for which a run is NOT what C13 demands (empty = accepted)
Defects(a, f, qr) ==
  LET cand   == Cand(a, f, qr)
      d(o)   == DistT[qr.q][a[o]]
      flb    == FarLBT[qr.q]
      hasr   == HasRadius(qr)
      \* with a radius: objects clearly inside / objects too close to the circle to be judged
      must   == IF hasr THEN {o \in cand : d(o) + Tol(d(o)) < qr.r} ELSE cand
      may    == IF hasr THEN {o \in cand : Abs(d(o) - qr.r) <= Tol(d(o))} ELSE {}
      far    == IF hasr THEN {} ELSE FarCand(qr)
      items  == Items(qr)
      n      == Len(items)
      known  == {i \in 1..n : items[i].o > 0}
      fars   == {i \in 1..n : items[i].o < 0}
      ids    == {items[i].o : i \in known}
      farids == {0 - items[i].o : i \in fars}
      \* the table distance of a known candidate, the lower bound of a far object, -1 for anything else
      keys   == TLCEval([i \in 1..n |-> IF items[i].o < 0 THEN flb
                                        ELSE IF items[i].o \in cand THEN d(items[i].o) ELSE 0 - 1])
      kn     == TLCEval([i \in 1..n |-> items[i].o > 0])
      maxkey == SeqMax(keys, 1, 0 - 1)
      L      == Limit(qr)
      nmust  == Cardinality(must) + Cardinality(far)
      nmax   == nmust + Cardinality(may)
      p1     == Len(qr.pages[1].items)
  IN
  \* the radius must not reach the anonymous objects: such a run cannot be judged (a harness error)
  (IF hasr /\ FarCand(qr) # {} /\ qr.r + Tol(qr.r) >= flb THEN {"unfit-radius-reaches-far"} ELSE {})
  \cup (IF \E i \in 1..n : items[i].o = 0 THEN {"unknown-id"} ELSE {})
  \cup (IF \E i \in known : items[i].o \notin must \cup may THEN {"not-a-candidate"} ELSE {})
  \cup (IF \E i \in fars : (0 - items[i].o) \notin far THEN {"not-a-candidate"} ELSE {})
  \cup (IF Cardinality(ids) # Cardinality(known) \/ Cardinality(farids) # Cardinality(fars)
        THEN {"duplicate"} ELSE {})
  \* Sorted: non-decreasing distance
  \cup (IF Unsorted(keys, kn, 1, 0 - 1) THEN {"unsorted"} ELSE {})
  \* KClosest: no omitted object that must be reported is strictly closer than a reported one
  \cup (IF \E o \in must \ ids : d(o) + OrdEps < maxkey THEN {"closer-object-omitted"} ELSE {})
  \* the first page: LIMIT objects if there are that many, else all of them
  \cup (IF p1 > L \/ p1 < Min(L, nmust) \/ p1 > nmax THEN {"wrong-count"} ELSE {})
  \cup (IF \E i \in 2..Len(qr.pages) : Len(qr.pages[i].items) > L THEN {"wrong-count"} ELSE {})
  \* a run that ended with cursor 0 has reported everything
  \cup (IF Complete(qr) /\ ~(must \subseteq ids /\ far \subseteq farids) THEN {"incomplete"} ELSE {})
  \* DISTANCE reports the distance in metres
  \cup (IF qr.dist /\ \E i \in 1..n : items[i].mm < 0 THEN {"distance-missing"} ELSE {})
  \cup (IF qr.dist /\ \E i \in known : keys[i] >= 0 /\ items[i].mm >= 0
                                       /\ Abs(items[i].mm - keys[i]) > Tol(keys[i])
        THEN {"distance-wrong"} ELSE {})
  \cup (IF qr.dist /\ \E i \in fars : items[i].mm >= 0 /\ items[i].mm + Tol(flb) < flb
        THEN {"distance-wrong"} ELSE {})

Accepts(a, f, qr) == Defects(a, f, qr) = {}

-----------------------------------------------------------------------------
(* 3. Model of the implementation.                                          *)
(*                                                                          *)
(* collection.Nearby walks the R-tree best first: a priority queue holds    *)
(* tree nodes keyed by a lower bound of the distance to anything below them *)
(* (pointRectDistGeodeticRad on the node rectangle) and items keyed by      *)
(* their own distance; the smallest key is popped, a node is replaced by    *)
(* its children, an item is handed to the iterator.  Here a tree is a       *)
(* grouping grp : Objs -> group number (two levels: root, leaves) and the   *)
(* key of a leaf is NodeKey.  The iterator (cmdNearby + scanWriter):        *)
(*   count++ ; skip while count <= cursor ; iterations++ ;                  *)
(*   stop if radius > 0 and dist > radius ; skip unless MATCH and WHERE ;   *)
(*   append ; stop with "limit hit" when LIMIT items are appended.          *)
(* The reply carries cursor = iterations (+ the cursor given) if the limit  *)
(* was hit, else 0.                                                         *)
(*                                                                          *)
(* Variants:  "ok"                   the design as coded                    *)
(*            "lb-inadmissible"      a node is keyed by the distance of its  *)
(*                                   farthest member (not a lower bound)    *)
(*            "limit-before-filter"  LIMIT counts objects before MATCH/WHERE *)
(*            "cursor-counts-items"  the cursor counts appended items only  *)
(*            "radius-skips"         the radius test skips instead of stops  *)
(*                                   (harmless: must be accepted as well)   *)

SetMin(S) == CHOOSE m \in S : \A x \in S : m <= x
SetMax(S) == CHOOSE m \in S : \A x \in S : m >= x

NodeKey(a, q, members) ==
  LET ds == {DistT[q][a[o]] : o \in members}
  IN IF Variant = "lb-inadmissible" THEN SetMax(ds) ELSE SetMin(ds)

\* best-first traversal: Q is the queue (a set of entries), out the sequence of objects handed to the iterator
RECURSIVE BestFirst(_, _, _, _, _)
BestFirst(a, q, grp, Q, out) ==
  IF Q = {} THEN out
  ELSE LET e == CHOOSE x \in Q : \A y \in Q : x.key < y.key \/ (x.key = y.key /\ x.ord <= y.ord)
       IN IF e.node = 0
          THEN BestFirst(a, q, grp, Q \ {e}, Append(out, e.o))
          ELSE BestFirst(a, q, grp,
                         (Q \ {e}) \cup {[node |-> 0, o |-> o, key |-> DistT[q][a[o]], ord |-> 100 + o] :
                                           o \in {x \in Objs : Present(a, x) /\ grp[x] = e.node}},
                         out)

Traversal(a, q, grp) ==
  LET groups == {grp[o] : o \in {x \in Objs : Present(a, x)}}
  IN BestFirst(a, q, grp,
               {[node |-> g, o |-> 0, ord |-> g,
                 key |-> NodeKey(a, q, {x \in Objs : Present(a, x) /\ grp[x] = g})] : g \in groups},
               <<>>)

\* one NEARBY call: returns [items, next].  i walks the traversal, iters counts the iterations after the
\* cursor skip, cnt is the counter that is compared with LIMIT
RECURSIVE Iterate(_, _, _, _, _, _, _, _, _)
Iterate(a, f, qr, order, cursor, i, iters, cnt, items) ==
  IF i > Len(order) THEN [items |-> items, next |-> 0]
  ELSE LET o    == order[i]
           dd   == DistT[qr.q][a[o]]
           pass == o \in PatKnown[qr.pat] /\ (qr.wh = 0 \/ f[o] = 1)
       IN IF i <= cursor THEN Iterate(a, f, qr, order, cursor, i + 1, iters, cnt, items)
          ELSE IF HasRadius(qr) /\ dd > qr.r
               THEN IF Variant = "radius-skips"
                    THEN Iterate(a, f, qr, order, cursor, i + 1, iters + 1, cnt, items)
                    ELSE [items |-> items, next |-> 0]
          ELSE LET it2 == IF pass THEN Append(items, [o |-> o, mm |-> IF qr.dist THEN dd ELSE 0 - 1]) ELSE items
                   c2  == IF Variant = "limit-before-filter" THEN cnt + 1 ELSE Len(it2)
                   n2  == iters + 1
               IN IF c2 = Limit(qr) /\ (pass \/ Variant = "limit-before-filter")
                  THEN [items |-> it2,
                        next |-> IF Variant = "cursor-counts-items" THEN cursor + Len(it2) ELSE cursor + n2]
                  ELSE Iterate(a, f, qr, order, cursor, i + 1, n2, c2, it2)

ServePage(a, f, qr, grp, cursor) ==
  Iterate(a, f, qr, Traversal(a, qr.q, grp), cursor, 1, 0, 0, <<>>)

\* a paging run: follow the cursor for at most `maxpages' pages (1 = the plain query)
RECURSIVE ServeRun(_, _, _, _, _, _, _)
ServeRun(a, f, qr, grp, cursor, maxpages, pages) ==
  LET pg == ServePage(a, f, qr, grp, cursor)
      ps == Append(pages, pg)
  IN IF pg.next = 0 \/ Len(ps) >= maxpages THEN ps
     ELSE ServeRun(a, f, qr, grp, pg.next, maxpages, ps)

Serve(a, f, qr, grp, maxpages) ==
  [qr EXCEPT !.pages = ServeRun(a, f, qr, grp, 0, maxpages, <<>>)]

=============================================================================
