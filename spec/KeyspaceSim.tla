---------------------------- MODULE KeyspaceSim ----------------------------
(* Random behaviour generator for Keyspace (tlc -simulate): one random       *)
(* command per operation and step, built with RandomElement so that no       *)
(* command set is ever enumerated; alphabets can therefore be the full token *)
(* table.  Each behaviour is printed once, when it reaches MaxHist.          *)
EXTENDS KeyspaceRand, Json

CONSTANTS MaxHist

VARIABLES st, hist, done
vars == <<st, hist, done>>

Init == st = EmptyState /\ hist = <<>> /\ done = FALSE

Step(c) == LET r == Apply(st, c) IN
           /\ Generable(st, c)
           /\ st' = r.st
           /\ hist' = Append(hist, [c |-> c, rr |-> r.rr, rj |-> r.rj, upd |-> r.upd])
           /\ UNCHANGED done

\* the behaviour that was actually followed is printed exactly once, by its only final step
Finish == /\ Len(hist) = MaxHist /\ ~done /\ done' = TRUE /\ UNCHANGED <<st, hist>>
          /\ PrintT(<<"TR", ToJson([h |-> hist, post |-> st])>>)
SimNext == \/ /\ Len(hist) < MaxHist
              /\ \E j \in 1..Len(SimOps) : Step(SimCmd(SimOps[j]))
           \/ Finish
SimSpec == Init /\ [][SimNext]_vars

StoredForms == \A k \in Keys, i \in Ids, n \in FNames : st.cols[k][i].f[n] \in FValStored
=============================================================================
