---------------------------- MODULE KeyspaceSim ----------------------------
(* Random behaviour generator for Keyspace (tlc -simulate): one random       *)
(* command per operation and step, built with RandomElement so that no       *)
(* command set is ever enumerated; alphabets can therefore be the full token *)
(* table.  Each behaviour is printed once, when it reaches MaxHist.          *)
EXTENDS Keyspace, Json

CONSTANTS MaxHist, WithHooks

VARIABLES st, hist, done
vars == <<st, hist, done>>

Init == st = EmptyState /\ hist = <<>> /\ done = FALSE

Step(c) == LET r == Apply(st, c) IN
           /\ st' = r.st
           /\ hist' = Append(hist, [c |-> c, rr |-> r.rr, rj |-> r.rj, upd |-> r.upd])
           /\ UNCHANGED done

\* ---- random generation for -simulate: one random command per operation, no set enumeration ----
RE(S) == RandomElement(S)
RandFu(min) == LET n == RE(min..2) IN [j \in 1..n |-> <<RE(FNames), RE(FValSet)>>]
SimCmd(op) ==
  CASE op = "set"      -> [op |-> "set", k |-> RE(Keys), id |-> RE(Ids), g |-> RE(GeoSet), fu |-> RandFu(0),
                           ex |-> RE(BOOLEAN), cond |-> RE({"-", "-", "nx", "xx"})]
    [] op = "fset"     -> [op |-> "fset", k |-> RE(Keys), id |-> RE(Ids), xx |-> RE(BOOLEAN), fu |-> RandFu(1)]
    [] op = "del"      -> [op |-> "del", k |-> RE(Keys), id |-> RE(Ids), e404 |-> RE(BOOLEAN)]
    [] op = "pdel"     -> [op |-> "pdel", k |-> RE(Keys), p |-> RE(PatSet)]
    [] op = "drop"     -> [op |-> "drop", k |-> RE(Keys)]
    [] op = "rename"   -> [op |-> "rename", k |-> RE(Keys), k2 |-> RE(Keys), nx |-> RE(BOOLEAN)]
    [] op = "flushdb"  -> [op |-> "flushdb"]
    [] op \in {"expire", "persist", "ttl", "exists"} -> [op |-> op, k |-> RE(Keys), id |-> RE(Ids)]
    [] op = "get"      -> [op |-> "get", k |-> RE(Keys), id |-> RE(Ids), wf |-> RE(BOOLEAN)]
    [] op \in {"fexists", "fget"} -> [op |-> op, k |-> RE(Keys), id |-> RE(Ids), n |-> RE(FNames)]
    [] op = "type"     -> [op |-> "type", k |-> RE(Keys)]
    [] op = "keys"     -> [op |-> "keys", p |-> RE(PatSet)]
    [] op = "scan"     -> [op |-> "scan", k |-> RE(Keys), p |-> RE(PatSet), desc |-> RE(BOOLEAN),
                           lim |-> RE(0..(Len(IdSeq) + 1)), out |-> RE({"ids", "count"})]
    [] op = "sethook"  -> [op |-> "sethook", h |-> RE(HNames), k |-> RE(Keys), chan |-> RE(BOOLEAN)]
    [] op = "delhook"  -> [op |-> "delhook", h |-> RE(HNames), chan |-> RE(BOOLEAN)]
    [] op = "pdelhook" -> [op |-> "pdelhook", p |-> RE(PatSet), chan |-> RE(BOOLEAN)]
    [] op = "hooks"    -> [op |-> "hooks", p |-> RE(PatSet), chan |-> RE(BOOLEAN)]
SimOps == <<"set", "set", "set", "set", "set", "set", "fset", "fset", "fset", "del", "del", "pdel", "drop",
            "rename", "rename", "expire", "persist", "ttl", "exists", "get", "get", "get", "fexists", "fget",
            "type", "keys", "scan", "scan">>
           \o (IF WithHooks THEN <<"sethook", "sethook", "delhook", "pdelhook", "hooks">> ELSE <<>>)
           \o <<"flushdb">>
\* the behaviour that was actually followed is printed exactly once, by its only final step
Finish == /\ Len(hist) = MaxHist /\ ~done /\ done' = TRUE /\ UNCHANGED <<st, hist>>
          /\ PrintT(<<"TR", ToJson([h |-> hist, post |-> st])>>)
SimNext == \/ /\ Len(hist) < MaxHist
              /\ \E j \in 1..Len(SimOps) : Step(SimCmd(SimOps[j]))
           \/ Finish
SimSpec == Init /\ [][SimNext]_vars

StoredForms == \A k \in Keys, i \in Ids, n \in FNames : st.cols[k][i].f[n] \in FValStored
=============================================================================
