-------------------------------- MODULE Torn --------------------------------
(***************************************************************************)
(* Recovery of a torn or zero-padded log tail: loadAOF (aof.go).            *)
(* The file is a sequence of bytes; byte values are abstract:               *)
(*   <<i, p>>  p-th byte (1..Len[i]) of the i-th command,  <<0, 0>> a NUL.   *)
(* loadAOF reads the file in chunks of Chunk bytes into a carry buffer and   *)
(* repeatedly: skips NULs at a command start, parses one command if it is    *)
(* complete, otherwise keeps the fragment; at EOF a non-empty fragment is    *)
(* cut off (aofsz -= len(fragment); truncate; seek).                        *)
(* TLC checks, for every log shape, every placement of NUL runs at command   *)
(* boundaries and every tear offset, that the loop (i) executes exactly the  *)
(* commands that lie wholly before the tear, in order, (ii) ends with        *)
(* aofsz = the end of the last complete command plus the padding that        *)
(* follows it, (iii) never cuts into a complete command.                     *)
(***************************************************************************)
EXTENDS Integers, Sequences, FiniteSets, TLC

CONSTANTS NCmd,      \* commands in the log
          MaxLen,    \* command lengths range over 1..MaxLen
          MaxPad,    \* NUL run lengths at each boundary range over 0..MaxPad
          Chunk      \* read size of loadAOF (0xFFFF in the code)

VARIABLES len, pad, tear, result
vars == <<len, pad, tear, result>>

RECURSIVE Bytes(_, _, _)
\* file = pad[0] NULs, cmd 1, pad[1] NULs, cmd 2, ...
Nuls(n) == [j \in 1..n |-> <<0, 0>>]
CmdBytes(i, l) == [p \in 1..l |-> <<i, p>>]
Bytes(l, p, i) == IF i > NCmd THEN <<>> ELSE CmdBytes(i, l[i]) \o Nuls(p[i]) \o Bytes(l, p, i + 1)
File(l, p) == Nuls(p[0]) \o Bytes(l, p, 1)

\* the parse step of redcon.ReadNextCommand on abstract bytes: complete iff the buffer starts with
\* byte 1 of a command and holds all of its bytes
RECURSIVE Parse(_, _, _)
\* returns [cmds, rest]: commands parsed from data, and the unparsed rest (fragment)
Parse(data, l, acc) ==
  IF data = <<>> THEN [cmds |-> acc, rest |-> <<>>]
  ELSE IF Head(data) = <<0, 0>> THEN Parse(Tail(data), l, acc)                     \* zeros are skipped
  ELSE LET i == Head(data)[1] IN
       IF Len(data) >= l[i] THEN Parse(SubSeq(data, l[i] + 1, Len(data)), l, Append(acc, i))
       ELSE [cmds |-> acc, rest |-> data]

RECURSIVE Load(_, _, _, _, _)
\* the chunked read loop: file, lengths, carry buffer, commands so far, aofsz so far
Load(file, l, buf, cmds, sz) ==
  IF file = <<>>
  THEN [cmds |-> cmds, aofsz |-> sz - Len(buf), cut |-> Len(buf)]
  ELSE LET n == IF Len(file) < Chunk THEN Len(file) ELSE Chunk
           r == Parse(buf \o SubSeq(file, 1, n), l, cmds)
       IN Load(SubSeq(file, n + 1, Len(file)), l, r.rest, r.cmds, sz + n)

Init == /\ len \in [1..NCmd -> 1..MaxLen]
        /\ pad \in [0..NCmd -> 0..MaxPad]
        /\ tear \in 0..(NCmd * (MaxLen + MaxPad) + MaxPad)
        /\ result = [cmds |-> <<>>, aofsz |-> 0, cut |-> 0]
Next == /\ tear <= Len(File(len, pad))
        /\ result' = Load(SubSeq(File(len, pad), 1, tear), len, <<>>, <<>>, 0)
        /\ UNCHANGED <<len, pad, tear>>
Spec == Init /\ [][Next]_vars

\* expected: j = number of commands wholly before the tear
RECURSIVE EndOf(_, _, _)
EndOf(l, p, i) == IF i = 0 THEN p[0] ELSE EndOf(l, p, i - 1) + l[i] + p[i]     \* end of cmd i incl. its padding
CmdEnd(l, p, i) == EndOf(l, p, i) - p[i]                                        \* end of cmd i itself
Whole(l, p, t) == Cardinality({i \in 1..NCmd : CmdEnd(l, p, i) <= t})

Recovered == result' # result =>
   LET j == Whole(len, pad, tear) IN
   /\ result'.cmds = [i \in 1..j |-> i]                              \* exactly the complete commands, in order
   /\ result'.aofsz <= tear
   /\ result'.aofsz >= (IF j = 0 THEN 0 ELSE CmdEnd(len, pad, j))    \* never cuts into a complete command
   /\ result'.aofsz + result'.cut = tear                             \* only the fragment is removed
   /\ (result'.cut > 0 => result'.cut < len[j + 1])                  \* the fragment is a proper prefix of the next command
RecoveredProp == [][Recovered]_vars
=============================================================================
