----------------------------- MODULE GatesGen -----------------------------
(* Generator for Gates (property C15).  The machine of Gates is made        *)
(* deterministic (one transition per (mode, connection state, command,      *)
(* wrapper): the outcome is not chosen, the expectation is recorded) and a   *)
(* history variable collects the steps of the connection.  The history is    *)
(* hidden from the VIEW, so TLC's breadth-first search visits every          *)
(* (server mode, connection state) once and the action property Emit prints  *)
(* one shortest behaviour per cell of the matrix: connect, the               *)
(* authentication steps that establish the connection state, the command.    *)
(* The harness executes each behaviour against real servers and compares     *)
(* every step with the recorded expectation (model -> code).                 *)
(* In simulation mode (MaxCmds > 1) the behaviours are random sequences of   *)
(* commands on one connection, printed once when they are complete.          *)
EXTENDS Gates, Json, TLC

VARIABLE hist
gvars == <<srv, conn, last, hist>>

GInit == Init /\ hist = <<>>

\* the connection state the model continues with: AUTH with the right password on a
\* non-HTTP transport authenticates (the harness verifies this with a probe; the
\* expectation itself stays "any")
Intended(exp, i, w) ==
  IF exp.authd = "F" THEN FALSE
  ELSE IF conn.authd THEN TRUE
  ELSE srv.requirepass /\ conn.st = "open" /\ RightAuth(i, w) /\ w \notin HttpW

GConnect(p, e) ==
  /\ conn.st = "none"
  /\ p \in Peers(srv) /\ e \in Earlies(srv)
  /\ conn' = [NoConn EXCEPT !.st = IF Refuses(srv, p) THEN "refused" ELSE "open", !.peer = p, !.early = e]
  /\ hist' = Append(hist, [k |-> "connect", peer |-> p, i |-> "-", w |-> "-", pre |-> conn, post |-> conn',
                           exp |-> ConnectGate(srv, p)])
  /\ UNCHANGED <<srv, last>>

GCmd(i, w) ==
  /\ CanSend(i, w)
  /\ LET exp == Gate(srv, conn, i, w) IN
     /\ conn' = After(i, w, Intended(exp, i, w))
     /\ hist' = Append(hist, [k |-> "cmd", peer |-> conn.peer, i |-> i, w |-> w, pre |-> conn, post |-> conn',
                              exp |-> exp])
  /\ UNCHANGED <<srv, last>>

GNext == (\E p \in {"lo", "nl"}, e \in BOOLEAN : GConnect(p, e)) \/ (\E i \in Insts, w \in Wrappers : GCmd(i, w))
GSpec == GInit /\ [][GNext]_gvars
GView == <<srv, conn>>

Payload(h) == ToJson([srv |-> srv, steps |-> h])
\* breadth-first: one line per transition = per cell of the matrix
Emit == [][PrintT(<<"TR", Payload(hist')>>)]_gvars

\* ---- simulation: one random command per step, print the behaviour when it is complete
SimPick ==
  LET i  == RandomElement(Insts)
      ws == {w \in Wrappers : CanSend(i, w)}
  IN IF ws = {} THEN UNCHANGED gvars ELSE GCmd(i, RandomElement(ws))
Complete == conn.st = "done" \/ (conn.st \in {"open", "refused"} /\ conn.n >= MaxCmds)
SimNext ==
  \/ \E p \in {"lo", "nl"}, e \in BOOLEAN : GConnect(p, e)
  \/ conn.st \in {"open", "refused"} /\ ~Complete /\ SimPick
  \/ Complete /\ PrintT(<<"TR", Payload(hist)>>) /\ conn' = [conn EXCEPT !.st = "printed"] /\ UNCHANGED <<srv, last, hist>>
SimSpec == GInit /\ [][SimNext]_gvars
=============================================================================
