----------------------------- MODULE ExpireSim -----------------------------
(***************************************************************************)
(* Random command programs for C14 (tlc -simulate): the design machine of  *)
(* Expire takes one random step at a time (RandomElement, so no command    *)
(* set is enumerated), time passes with probability TickPct per step; the  *)
(* program is printed once, by the only final step, closed by the probe of *)
(* ExpireGen.                                                              *)
(***************************************************************************)
EXTENDS ExpireGen

CONSTANTS TickPct    \* percentage of steps that let time pass
VARIABLE done
svars == <<now, st, due, stored, shadow, log, nops, ev, hist, old, hold, done>>

SInit == GInit /\ done = FALSE

RKey == RandomElement(Keys)
RId  == RandomElement(Ids)
RTtl == RandomElement(TTLs)
RandomCmd ==
  LET d == RandomElement(1..100) IN
  CASE d <= 22 -> Cmd("set", RKey, RId, "", "", DlOf(RTtl))
    [] d <= 32 -> Cmd("set", RKey, RId, "", "", NoDl)
    [] d <= 46 -> Cmd("expire", RKey, RId, "", "", DlOf(RTtl))
    [] d <= 54 -> Cmd("persist", RKey, RId, "", "", NoDl)
    [] d <= 60 -> Cmd("fset", RKey, RId, "", "", NoDl)
    [] d <= 66 -> Cmd("jset", RKey, RId, "", "", NoDl)
    [] d <= 76 -> Cmd("del", RKey, RId, "", "", NoDl)
    [] d <= 84 -> LET k == RKey IN Cmd("rename", k, "", RandomElement(Keys \ {k}), "", NoDl)
    [] d <= 92 -> Cmd("sethook", RKey, "", "", RandomElement(Names), DlOf(RTtl))
    [] d <= 95 -> Cmd("sethook", RKey, "", "", RandomElement(Names), NoDl)
    [] OTHER   -> Cmd("delhook", "", "", "", RandomElement(Names), NoDl)

SimStep == /\ ~done /\ nops < MaxOps /\ now < MaxNow
           /\ IF RandomElement(1..100) <= TickPct THEN (GTick \/ GSweep) ELSE GDo(RandomCmd)
           /\ UNCHANGED done
Finish == /\ ~done /\ (nops = MaxOps \/ now = MaxNow)
          /\ done' = TRUE
          /\ PrintT(<<"TR", ToJson(Program("sim", hist, st, now, due - now))>>)
          /\ UNCHANGED <<now, st, due, stored, shadow, log, nops, ev, hist, old, hold>>
SimNext == SimStep \/ Finish
SimSpec == SInit /\ [][SimNext]_svars
=============================================================================
