----------------------------- MODULE ExpireSim -----------------------------
(***************************************************************************)
(* Random command programs for C14 (tlc -simulate): the design machine of  *)
(* Expire takes one random step at a time (RandomElement, so no command    *)
(* set is enumerated), time passes with probability TickPct per step; the  *)
(* program is printed once, by the only final step, closed by the probe of *)
(* ExpireGen.                                                              *)
(***************************************************************************)
EXTENDS ExpireGen

CONSTANTS TickPct,   \* percentage of steps that let time pass
          W          \* cumulative percentages of the command kinds (sequence of 10)
VARIABLE done
svars == <<now, st, due, stored, shadow, log, nops, ev, hist, old, hold, done>>

SInit == GInit /\ done = FALSE

\* (operators with a parameter: TLC evaluates zero-arity constant definitions only once)
RE(S) == RandomElement(S)
\* W: cumulative percentages of the kinds of command (a constant of the run, so that a run can be a burst of SET EX)
RandomCmd ==
  LET d == RandomElement(1..100) IN
  CASE d <= W[1]  -> Cmd("set", RE(Keys), RE(Ids), "", "", DlOf(RE(TTLs)))
    [] d <= W[2]  -> Cmd("set", RE(Keys), RE(Ids), "", "", NoDl)
    [] d <= W[3]  -> Cmd("expire", RE(Keys), RE(Ids), "", "", DlOf(RE(TTLs)))
    [] d <= W[4]  -> Cmd("persist", RE(Keys), RE(Ids), "", "", NoDl)
    [] d <= W[5]  -> Cmd("fset", RE(Keys), RE(Ids), "", "", NoDl)
    [] d <= W[6]  -> Cmd("jset", RE(Keys), RE(Ids), "", "", NoDl)
    [] d <= W[7]  -> Cmd("del", RE(Keys), RE(Ids), "", "", NoDl)
    [] d <= W[8]  -> LET k == RE(Keys) IN Cmd("rename", k, "", RE(Keys \ {k}), "", NoDl)
    [] d <= W[9]  -> Cmd("sethook", RE(Keys), "", "", RE(Names), DlOf(RE(TTLs)))
    [] d <= W[10] -> Cmd("sethook", RE(Keys), "", "", RE(Names), NoDl)
    [] OTHER      -> Cmd("delhook", "", "", "", RE(Names), NoDl)

SimStep == /\ ~done /\ nops < MaxOps /\ now < MaxNow
           /\ IF RandomElement(1..100) <= TickPct THEN (GTick \/ GSweep) ELSE GDo(RandomCmd)
           /\ UNCHANGED done
Finish == /\ ~done /\ (nops = MaxOps \/ now = MaxNow)
          /\ done' = TRUE
          /\ PrintT(<<"TR", ToJson(Program("sim", hist, st, now, due - now))>>)
          /\ UNCHANGED <<now, st, due, stored, shadow, log, nops, ev, hist, old, hold>>
SimNext == SimStep \/ Finish
SimSpec == SInit /\ [][SimNext]_svars
=============================================================================
