------------------------------ MODULE Prewrite ------------------------------
(***************************************************************************)
(* The pre-write protocol of netServe (internal/server/server.go): a       *)
(* command appends to the shared AOF buffer under the write lock and sets  *)
(* the dirty flag; before a connection writes its pending replies to the   *)
(* socket it tests the flag and, if set, takes the lock, flushes the       *)
(* buffer to the file and clears the flag.  C08: at the moment a success   *)
(* reply is written to the socket, the command's bytes are in the file.    *)
(*                                                                         *)
(* One action per statement group between two instrumentation gates:       *)
(*   Exec            handleInputCommand of a write: Lock; apply; writeAOF  *)
(*                   (dirty := TRUE; append); Unlock; reply into client.out *)
(*   ExecThenLive    the same, pipelined with a command that "goes live"   *)
(*                   (SUBSCRIBE, AOF, ... FENCE): pending replies are      *)
(*                   written by the hand-off path                          *)
(*   TestDirty       `if s.aofdirty.Load()`                                *)
(*   LockFlushUnlock `s.mu.Lock(); s.flushAOF(false); s.mu.Unlock()`       *)
(*                   (lock acquisition and flush are one step: nothing is  *)
(*                   ever parked inside the lock, and no other step reads  *)
(*                   state that the acquisition alone changes)             *)
(*   ClearDirty      `s.aofdirty.Store(false)` when it is a separate step  *)
(*   SockWrite       `conn.Write(client.out)`                              *)
(*   BgSync          backgroundSyncAOF: LockLowPriority; flushAOF(true)    *)
(* Deviation constants (TRUE = the design as it was coded at the pinned    *)
(* commit): ClearOutsideLock - the flag is cleared after the lock has been *)
(* released; GoLiveSkipsFlush - the hand-off path writes without flushing. *)
(***************************************************************************)
EXTENDS Integers, Sequences, FiniteSets, TLC

CONSTANTS Conn,              \* set of connections
          NCmd,              \* commands per connection
          ClearOutsideLock, GoLiveSkipsFlush,
          WithBg,            \* background flusher present
          WithLive           \* connections may pipeline a go-live command

VARIABLES buf,       \* sequence of append numbers sitting in the buffer
          dirty,     \* the flag
          appended,  \* number of commands appended so far
          flushed,   \* highest append number written to the file
          pc,        \* per connection: "read" | "test" | "flush" | "clear" | "write" | "livewrite"
          done,      \* per connection: commands completed
          myLast,    \* per connection: append number of its last command
          acked      \* set of append numbers acknowledged on a socket
vars == <<buf, dirty, appended, flushed, pc, done, myLast, acked>>

Init == /\ buf = <<>> /\ dirty = FALSE /\ appended = 0 /\ flushed = 0
        /\ pc = [c \in Conn |-> "read"] /\ done = [c \in Conn |-> 0]
        /\ myLast = [c \in Conn |-> 0] /\ acked = {}

Exec(c) == /\ pc[c] = "read" /\ done[c] < NCmd
           /\ appended' = appended + 1 /\ buf' = Append(buf, appended + 1) /\ dirty' = TRUE
           /\ myLast' = [myLast EXCEPT ![c] = appended + 1]
           /\ pc' = [pc EXCEPT ![c] = "test"]
           /\ UNCHANGED <<flushed, done, acked>>

ExecThenLive(c) ==
           /\ WithLive /\ pc[c] = "read" /\ done[c] < NCmd
           /\ appended' = appended + 1 /\ buf' = Append(buf, appended + 1) /\ dirty' = TRUE
           /\ myLast' = [myLast EXCEPT ![c] = appended + 1]
           /\ pc' = [pc EXCEPT ![c] = IF GoLiveSkipsFlush THEN "livewrite" ELSE "flush"]
           /\ UNCHANGED <<flushed, done, acked>>

TestDirty(c) == /\ pc[c] = "test"
                /\ pc' = [pc EXCEPT ![c] = IF dirty THEN "flush" ELSE "write"]
                /\ UNCHANGED <<buf, dirty, appended, flushed, done, myLast, acked>>

LockFlushUnlock(c) ==
                /\ pc[c] = "flush"
                /\ flushed' = appended /\ buf' = <<>>
                /\ dirty' = IF ClearOutsideLock THEN dirty ELSE FALSE
                /\ pc' = [pc EXCEPT ![c] = IF ClearOutsideLock THEN "clear" ELSE "write"]
                /\ UNCHANGED <<appended, done, myLast, acked>>

ClearDirty(c) == /\ pc[c] = "clear" /\ dirty' = FALSE /\ pc' = [pc EXCEPT ![c] = "write"]
                 /\ UNCHANGED <<buf, appended, flushed, done, myLast, acked>>

SockWrite(c) == /\ pc[c] \in {"write", "livewrite"}
                /\ acked' = acked \cup {myLast[c]}
                /\ done' = [done EXCEPT ![c] = IF pc[c] = "livewrite" THEN NCmd ELSE done[c] + 1]
                /\ pc' = [pc EXCEPT ![c] = "read"]
                /\ UNCHANGED <<buf, dirty, appended, flushed, myLast>>

BgSync == /\ WithBg /\ buf # <<>>
          /\ flushed' = appended /\ buf' = <<>>
          /\ UNCHANGED <<dirty, appended, pc, done, myLast, acked>>

Step(c) == Exec(c) \/ ExecThenLive(c) \/ TestDirty(c) \/ LockFlushUnlock(c) \/ ClearDirty(c) \/ SockWrite(c)
Next == (\E c \in Conn : Step(c)) \/ BgSync
Spec == Init /\ [][Next]_vars

-----------------------------------------------------------------------------
\* C08: every acknowledged command is in the file when it is acknowledged
AckImpliesFlushed == \A n \in acked : n <= flushed
\* the inductive core: outside the critical sections a non-empty buffer is covered by the flag
DirtyCoversBuf == buf # <<>> => dirty
\* buffer contents are exactly the unflushed suffix
BufIsSuffix == buf = [j \in 1..(appended - flushed) |-> flushed + j]
TypeOK == /\ appended \in Nat /\ flushed \in 0..appended /\ dirty \in BOOLEAN
          /\ \A c \in Conn : myLast[c] \in 0..appended /\ done[c] \in 0..NCmd
=============================================================================
