---------------------------- MODULE SpatialTrace ----------------------------
(***************************************************************************)
(* Validation of searches recorded from the real code (code -> model).      *)
(*                                                                         *)
(* trace.ndjson holds one event per line (harness/spatial/record.go,       *)
(* inpkg.go); ids and keys are numbers:                                     *)
(*   [e |-> "reset"]                          a fresh server / collection   *)
(*   [e |-> "set",  k, ids, lo, hi]           objects ids \cup lo..hi now   *)
(*                                            exist in collection k         *)
(*   [e |-> "del",  k, ids, lo, hi]           ... no longer exist           *)
(*   [e |-> "drop", k]     [e |-> "rename", k, to]                          *)
(*   [e |-> "q", k, cmd, sparse, res, tested | ntested, yes, q]             *)
(*        res    the ids WITHIN / INTERSECTS returned, in order             *)
(*        tested the ids for which the per-object predicate was evaluated   *)
(*               without the index (TEST GET k id cmd area; in-package: a   *)
(*               full scan applying Geo().Within/Intersects), or ntested,   *)
(*               their number, when the list is too long to log             *)
(*        yes    those for which it holds                                   *)
(* The module evolves the dataset `live' through the logged history - it    *)
(* never asks the server which objects exist - and judges every query with  *)
(* the statement of C02 (SpatialStmt): the predicate was evaluated for      *)
(* EVERY object of the collection (so an object the search silently lost    *)
(* is noticed), and the reply is Exact (resp. Thinned under SPARSE) with    *)
(* respect to the ids for which it holds.  Pred itself is taken from the    *)
(* log: by the statement, the oracle of the predicate is the index-free     *)
(* evaluation.  A rejected query is printed as <<"REJ", json>> and counted; *)
(* it never blocks, every line gets its own verdict.                        *)
(***************************************************************************)
EXTENDS Integers, Sequences, FiniteSets, SpatialStmt, Json, TLC

CONSTANT NKeys

Trace == ndJsonDeserialize("trace.ndjson")

VARIABLES l,      \* next line
          live,   \* key -> set of ids: the dataset evolved through the logged history
          nq, nrej, nbad
vars == <<l, live, nq, nrej, nbad>>

Keys == 1..NKeys
Empty == [k \in Keys |-> {}]

IdsOf(ev) == Elems(ev.ids) \cup (ev.lo)..(ev.hi)

\* was the predicate evaluated for every object of the collection, and only for those?
Covered(ev) == IF ev.ntested >= 0 THEN ev.ntested = Cardinality(live[ev.k])
               ELSE Elems(ev.tested) = live[ev.k] /\ NoDup(ev.tested)

Holds(ev) == Elems(ev.yes)

\* a malformed record is trouble of the recorder, not a verdict about the code
WellFormed(ev) == /\ ev.k \in Keys
                  /\ ev.cmd \in {"within", "intersects"}
                  /\ \/ ev.e = "qb"
                     \/ Covered(ev) /\ Holds(ev) \subseteq live[ev.k] /\ NoDup(ev.yes)

\* at most a dozen elements of a (possibly huge) set of ids, for the report
Sample(S) == IF S = {} THEN {} ELSE LET m == CHOOSE x \in S : \A y \in S : x <= y
                                     IN  LET T == {x \in S : x < m + 400} IN
                                         IF Cardinality(T) <= 12 THEN T ELSE {x \in T : Cardinality({y \in T : y < x}) < 12}

\* "qb": a search whose area is a NAMED cell (TILE x y z, QUADKEY k, HASH h).  The name denotes the rectangle its public
\* definition gives (computed by the recorder, not asked from the server): res is what the search with the name
\* returned, yes what the same search returned for that rectangle moved inwards by a millionth of its span, tested
\* what it returned for the rectangle moved outwards.  yes \subseteq res \subseteq tested, whatever the rounding.
Named(ev) == ev.e = "qb"
NamedLost(ev) == Elems(ev.yes) \ Elems(ev.res)
NamedInvented(ev) == Elems(ev.res) \ Elems(ev.tested)
NamedDefects(ev) == (IF NamedLost(ev) = {} THEN {} ELSE {"lost"}) \cup (IF NamedInvented(ev) = {} THEN {} ELSE {"invented"})

Defects(ev) == IF Named(ev) THEN NamedDefects(ev)
               ELSE IF ev.sparse = 0 THEN ExactDefects(ev.res, Holds(ev)) ELSE ThinnedDefects(ev.res, Holds(ev))

Init == /\ l = 1 /\ live = Empty /\ nq = 0 /\ nrej = 0 /\ nbad = 0
        /\ TLCSet(1, 1) /\ TLCSet(2, 0) /\ TLCSet(3, 0) /\ TLCSet(4, 0)

\* (no disjunction: TLC would split the action and evaluate PrintT on both branches)
Report(ev) ==
  IF ~WellFormed(ev)
  THEN PrintT(<<"BAD", ToJson([line |-> l, q |-> ev.q, run |-> ev.run,
                               why |-> IF ev.k \in Keys /\ ~Covered(ev) THEN "predicate not evaluated for exactly the objects of the collection"
                                       ELSE "malformed record"])>>)
  ELSE IF Defects(ev) # {}
  THEN PrintT(<<"REJ", ToJson([line |-> l, q |-> ev.q, run |-> ev.run, cmd |-> ev.cmd, sparse |-> ev.sparse,
                               why |-> Defects(ev),
                               lost |-> Sample(IF Named(ev) THEN NamedLost(ev) ELSE IF ev.sparse = 0 THEN Lost(ev.res, Holds(ev)) ELSE {}),
                               nlost |-> IF Named(ev) THEN Cardinality(NamedLost(ev))
                                         ELSE IF ev.sparse = 0 THEN Cardinality(Lost(ev.res, Holds(ev))) ELSE 0,
                               invented |-> Sample(IF Named(ev) THEN NamedInvented(ev) ELSE Invented(ev.res, Holds(ev))),
                               ninvented |-> Cardinality(IF Named(ev) THEN NamedInvented(ev) ELSE Invented(ev.res, Holds(ev))),
                               n |-> Cardinality(live[ev.k]), holds |-> Cardinality(Holds(ev))])>>)
  ELSE TRUE

Consume ==
  /\ l <= Len(Trace)
  /\ LET ev == Trace[l] IN
     /\ live' = CASE ev.e = "reset"  -> Empty
                  [] ev.e = "set"    -> [live EXCEPT ![ev.k] = @ \cup IdsOf(ev)]
                  [] ev.e = "del"    -> [live EXCEPT ![ev.k] = @ \ IdsOf(ev)]
                  [] ev.e = "drop"   -> [live EXCEPT ![ev.k] = {}]
                  [] ev.e = "rename" -> [live EXCEPT ![ev.to] = live[ev.k], ![ev.k] = {}]
                  [] OTHER           -> live
     /\ IF ev.e \in {"q", "qb"}
        THEN /\ Report(ev)
             /\ nq' = nq + 1
             /\ nbad' = nbad + (IF WellFormed(ev) THEN 0 ELSE 1)
             /\ nrej' = nrej + (IF WellFormed(ev) /\ Defects(ev) # {} THEN 1 ELSE 0)
        ELSE UNCHANGED <<nq, nrej, nbad>>
  /\ l' = l + 1
  /\ TLCSet(1, l') /\ TLCSet(2, nq') /\ TLCSet(3, nrej') /\ TLCSet(4, nbad')

Spec == Init /\ [][Consume]_vars

\* the whole file was judged (POSTCONDITION, -workers 1); the counts are printed for the check
Consumed == /\ TLCGet(1) = Len(Trace) + 1
            /\ PrintT(<<"SUM", ToJson([lines |-> Len(Trace), queries |-> TLCGet(2), rejected |-> TLCGet(3), malformed |-> TLCGet(4)])>>)
=============================================================================
