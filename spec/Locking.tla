------------------------------ MODULE Locking ------------------------------
(***************************************************************************)
(* The readers-writer lock discipline of handleInputCommand (server.go):   *)
(* every command name belongs to a lock class (the `switch` on the command *)
(* name; `default` is the shared lock), holds that lock while it accesses  *)
(* the shared structures, and releases it before the reply is flushed.     *)
(* The class table and what each command does to each shared structure are *)
(* CONSTANTS: the check supplies the table OBSERVED on the real server     *)
(* (lock mode reported by the hooks, mutation decided by the Keyspace      *)
(* model), so TLC re-checks the discipline for all interleavings with the  *)
(* table the code really implements.                                       *)
(* Structures: "data" (collections), "groups" (fence group maps), "aof"    *)
(* (buffer, shrink log, size).                                             *)
(***************************************************************************)
EXTENDS Integers, FiniteSets, TLC

CONSTANTS Clients,
          Cmds,        \* set of command names (strings)
          ClassOf,     \* [Cmds -> {"W", "R", "none"}]
          Writes,      \* [Cmds -> SUBSET {"data", "groups", "aof"}]  structures the command writes
          ReadsS       \* [Cmds -> SUBSET {"data", "groups", "aof"}]  structures the command reads

VARIABLES writer, readers, pc, cur
vars == <<writer, readers, pc, cur>>

NoClient == 0   \* clients are positive integers
Init == /\ writer = NoClient /\ readers = {}
        /\ pc = [c \in Clients |-> "idle"] /\ cur = [c \in Clients |-> "none"]

Acquire(c, m) == /\ pc[c] = "idle"
                 /\ cur' = [cur EXCEPT ![c] = m]
                 /\ CASE ClassOf[m] = "W" -> /\ writer = NoClient /\ readers = {}
                                             /\ writer' = c /\ UNCHANGED readers
                      [] ClassOf[m] = "R" -> /\ writer = NoClient
                                             /\ readers' = readers \cup {c} /\ UNCHANGED writer
                      [] OTHER            -> UNCHANGED <<writer, readers>>
                 /\ pc' = [pc EXCEPT ![c] = "holding"]

Release(c) == /\ pc[c] = "holding"
              /\ writer' = IF writer = c THEN NoClient ELSE writer
              /\ readers' = readers \ {c}
              /\ pc' = [pc EXCEPT ![c] = "idle"] /\ cur' = [cur EXCEPT ![c] = "none"]

Next == \E c \in Clients : (\E m \in Cmds : Acquire(c, m)) \/ Release(c)
Spec == Init /\ [][Next]_vars

Active == {c \in Clients : pc[c] = "holding"}
\* no structure is written by one client while another client accesses it
NoConflict == \A a, b \in Active : a # b =>
                 /\ Writes[cur[a]] \cap (Writes[cur[b]] \cup ReadsS[cur[b]]) = {}
\* whoever writes a structure holds the exclusive lock
MutatorsHoldW == \A a \in Active : Writes[cur[a]] # {} => writer = a
\* whoever reads the dataset holds the lock in some mode
ReadersHoldLock == \A a \in Active : ReadsS[cur[a]] # {} => (writer = a \/ a \in readers)
LockSound == (writer # NoClient => readers = {}) /\ (writer # NoClient => pc[writer] = "holding")
=============================================================================
