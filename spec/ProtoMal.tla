------------------------------ MODULE ProtoMal ------------------------------
(* Malformed input for Proto (C16, second sentence).                        *)
(*                                                                          *)
(* Malform: every single-operator mutation of a well-formed frame of every  *)
(* syntax.  Generic operators work on the encoded bytes at every position   *)
(* (delete, duplicate, replace, insert, truncate); structural operators     *)
(* rewrite one field (RESP count, RESP bulk length, native length, telnet   *)
(* quoting, HTTP request line, Content-Length) with the values that break   *)
(* parsers: negative, empty, non-numeric, off by one, huge, 2^63-1, 2^63.   *)
(* Each case optionally follows a well-formed RESP PING on the same         *)
(* connection (then a protocol error is answered before the close).         *)
(*                                                                          *)
(* The specification gives the outcome of each case: the replies (number,   *)
(* order, transport), whether the connection is closed, how many bytes      *)
(* stay in the carry-over buffer.  Contained says that whatever the input,  *)
(* the connection is answered or closed or left waiting - the process       *)
(* never crashes.  With NegBulk = "index" (as coded) TLC refutes it.        *)
(*                                                                          *)
(* SimSpec (tlc -simulate) draws random byte strings and random multi-edit  *)
(* mutants instead of enumerating.                                          *)
EXTENDS Proto, Json

CONSTANTS
  Kinds,      \* syntaxes to mutate
  BaseCmds,   \* well-formed commands (token sequences) the mutations start from
  RepBytes,   \* bytes used by the replace / insert operators
  Ids,
  SimLen,     \* maximal length of random byte strings (simulation)
  SimAlphabet \* bytes of random strings (simulation)

VARIABLES case, conn, phase
vars == <<case, conn, phase>>

N9(k) == [i \in 1..k |-> 57]
V_huge == N9(12)                                                                 \* 999999999999: more than will ever arrive
V_max  == MaxInt64                                                               \* 9223372036854775807 = 2^63-1
V_ovf  == <<57, 50, 50, 51, 51, 55, 50, 48, 51, 54, 56, 53, 52, 55, 55, 53, 56, 48, 56>>   \* 9223372036854775808 = 2^63
NV(nm, s) == [nm |-> nm, s |-> s]
LenVariants(n) ==
  {NV("neg1", <<MINUS, 49>>), NV("neg2", <<MINUS, 50>>), NV("neg100", <<MINUS, 49, 48, 48>>), NV("empty", <<>>),
   NV("nonnum", <<120>>), NV("plus1", Dec(n + 1)), NV("huge", V_huge), NV("maxint", V_max), NV("overflow", V_ovf)}
  \cup (IF n > 0 THEN {NV("minus1", Dec(n - 1))} ELSE {}) \cup (IF n # 0 THEN {NV("zero", <<48>>)} ELSE {})

Mut(op, s) == [op |-> op, s |-> s]

\* ---- generic operators on the encoded bytes ----
Generic(e) ==
  {Mut(<<"del", i, 0>>, Sub(e, 1, i - 1) \o From(e, i + 1)) : i \in 1..Len(e)} \cup
  {Mut(<<"dup", i, 0>>, Sub(e, 1, i) \o From(e, i)) : i \in 1..Len(e)} \cup
  {Mut(<<"trunc", i, 0>>, Sub(e, 1, i)) : i \in 1..(Len(e) - 1)} \cup
  {m \in {Mut(<<"rep", i, b>>, Sub(e, 1, i - 1) \o <<b>> \o From(e, i + 1)) : i \in 1..Len(e), b \in RepBytes} : m.s # e} \cup
  {Mut(<<"ins", i, b>>, Sub(e, 1, i - 1) \o <<b>> \o From(e, i)) : i \in 1..(Len(e) + 1), b \in RepBytes}

\* ---- structural operators ----
RespWith(cnt, lens, b) == <<STAR>> \o cnt \o CRLF \o Flat([i \in 1..Len(b) |-> <<DOLLAR>> \o lens[i] \o CRLF \o b[i] \o CRLF])
RespStruct(b) ==
  LET lens == [i \in 1..Len(b) |-> Dec(Len(b[i]))] IN
  {Mut(<<"count-" \o v.nm, 0, 0>>, RespWith(v.s, lens, b)) : v \in LenVariants(Len(b))} \cup
  {Mut(<<"bulklen-" \o v.nm, j, 0>>, RespWith(Dec(Len(b)), [lens EXCEPT ![j] = v.s], b)) :
      j \in 1..Len(b), v \in UNION {LenVariants(Len(b[k])) : k \in 1..Len(b)}}

NativeStruct(b) ==
  LET line == Join(b, <<SP>>, 1)
      W(l, x) == <<DOLLAR>> \o l \o <<SP>> \o x \o CRLF
      lastq(q) == Join([b EXCEPT ![Len(b)] = q], <<SP>>, 1)
  IN {Mut(<<"len-" \o v.nm, 0, 0>>, W(v.s, line)) : v \in LenVariants(Len(line))} \cup
     {Mut(<<"quote-" \o q.nm, 0, 0>>, W(Dec(Len(lastq(q.s))), lastq(q.s))) :
        q \in {NV("lone", <<DQ>>), NV("open", <<DQ, 120>>), NV("pair", <<DQ, DQ>>), NV("quoted", <<DQ, 120, DQ>>)}}

TelnetStruct(b) ==
  LET W(x) == Join(x, <<SP>>, 1) \o CRLF
      Q == {NV("open", <<DQ, 120>>), NV("inside", <<120, DQ, 121>>), NV("trailing", <<DQ, 120, DQ, 121>>),
            NV("escape-at-end", <<DQ, 120, BSL>>), NV("single", <<SQ, 120, SP, 121, SQ>>), NV("empty", <<DQ, DQ>>),
            NV("lone", <<DQ>>), NV("mixed", <<DQ, 120, SQ>>)}
  IN {Mut(<<"quote-" \o q.nm, j, 0>>, W([b EXCEPT ![j] = q.s])) : j \in 1..Len(b), q \in Q} \cup
     {Mut(<<"lf-only", 0, 0>>, Join(b, <<SP>>, 1) \o <<LF>>), Mut(<<"cr-only", 0, 0>>, Join(b, <<SP>>, 1) \o <<CR>>),
      Mut(<<"blank-line-first", 0, 0>>, CRLF \o W(b)), Mut(<<"many-blanks", 0, 0>>, <<SP, SP>> \o Join(b, <<SP, SP>>, 1) \o <<SP>> \o CRLF)}

HGetWith(method, path, ver) == method \o <<SP>> \o path \o ver \o CRLF \o CRLF
HTTP10 == <<SP, 72, 84, 84, 80, SLASH, 49, 46, 48>>
HGetStruct(b) ==
  LET line == UrlEsc(Join(b, <<SP>>, 1))
      p == <<SLASH>> \o line
  IN {Mut(<<"method-put", 0, 0>>, HGetWith(<<80, 85, 84>>, p, HTTP11)),
      Mut(<<"method-lower", 0, 0>>, HGetWith(<<103, 101, 116>>, p, HTTP11)),
      Mut(<<"no-slash", 0, 0>>, HGetWith(MGET, line, HTTP11)),
      Mut(<<"empty-path", 0, 0>>, HGetWith(MGET, <<SLASH>>, HTTP11)),
      Mut(<<"no-version", 0, 0>>, MGET \o <<SP>> \o p \o CRLF \o CRLF),
      Mut(<<"http10", 0, 0>>, HGetWith(MGET, p, HTTP10)),
      Mut(<<"extra-blank", 0, 0>>, HGetWith(MGET, p \o <<SP, 120>>, HTTP11)),
      Mut(<<"blank-in-path", 0, 0>>, HGetWith(MGET, <<SLASH>> \o Join(b, <<SP>>, 1), HTTP11)),
      Mut(<<"bad-escape", 0, 0>>, HGetWith(MGET, p \o <<PERCENT, 122, 122>>, HTTP11)),
      Mut(<<"short-escape", 0, 0>>, HGetWith(MGET, p \o <<PERCENT>>, HTTP11)),
      Mut(<<"escaped-blank", 0, 0>>, HGetWith(MGET, <<SLASH>> \o Join(b, <<PERCENT, 50, 48>>, 1), HTTP11)),
      Mut(<<"lf-only-lines", 0, 0>>, MGET \o <<SP>> \o p \o HTTP11 \o <<LF, LF>>),
      Mut(<<"no-empty-line", 0, 0>>, MGET \o <<SP>> \o p \o HTTP11 \o CRLF),
      Mut(<<"header-no-colon", 0, 0>>, MGET \o <<SP>> \o p \o HTTP11 \o CRLF \o <<120, 121>> \o CRLF \o CRLF),
      Mut(<<"query-string", 0, 0>>, HGetWith(MGET, p \o <<QMARK, 120>>, HTTP11))}

HPostWith(cl, body) == MPOST \o <<SP, SLASH>> \o HTTP11 \o CRLF \o cl \o CRLF \o body
HPostStruct(b) ==
  LET line == Join(b, <<SP>>, 1)
      H(v) == CLHdr \o v \o CRLF
  IN {Mut(<<"content-length-" \o v.nm, 0, 0>>, HPostWith(H(v.s), line)) : v \in LenVariants(Len(line))} \cup
     {Mut(<<"content-length-missing", 0, 0>>, HPostWith(<<>>, line)),
      Mut(<<"content-length-twice", 0, 0>>, HPostWith(H(Dec(1)) \o H(Dec(Len(line))), line)),
      Mut(<<"content-length-plus-sign", 0, 0>>, HPostWith(H(<<PLUS>> \o Dec(Len(line))), line)),
      Mut(<<"content-length-blanks", 0, 0>>, HPostWith(H(<<SP, TAB>> \o Dec(Len(line)) \o <<SP>>), line)),
      Mut(<<"content-length-no-blank", 0, 0>>, HPostWith(Sub(CLHdr, 1, Len(CLHdr) - 1) \o Dec(Len(line)) \o CRLF, line)),
      Mut(<<"body-and-path", 0, 0>>, MPOST \o <<SP, SLASH>> \o Tok["ECHO"] \o <<PLUS>> \o HTTP11 \o CRLF \o H(Dec(2)) \o CRLF \o <<109, 49>>)}

Structural(k, b) ==
  CASE k = "resp" -> RespStruct(b) [] k = "native" -> NativeStruct(b) [] k = "telnet" -> TelnetStruct(b)
    [] k = "hget" -> HGetStruct(b) [] k = "hpost" -> HPostStruct(b) [] OTHER -> {}

Mutants(f) == Generic(Enc(f)) \cup Structural(f.k, Bytes(f.a))

\* ---- the cases ----
PingFirst == Enc([k |-> "resp", a |-> <<"PING">>])
BaseFrames == {g \in [k : Kinds, a : BaseCmds] : Encodable(g)}
EmptyStore == [i \in Ids |-> ""]
Outcome(c) == [replies |-> Replies(c.out, 1, EmptyStore, <<>>), closed |-> c.closed, carry |-> Len(c.carry), crashed |-> c.crashed]
NoCase == [k |-> "", a |-> <<>>, op |-> <<"", 0, 0>>, pre |-> FALSE, s |-> <<>>]

\* an initial state chooses the well-formed frame; Send chooses the mutation and delivers it in one segment
Init == /\ \E f \in BaseFrames, pre \in BOOLEAN : case = [k |-> f.k, a |-> f.a, op |-> <<"", 0, 0>>, pre |-> pre, s |-> <<>>]
        /\ conn = InitConn /\ phase = "new"
Send == /\ phase = "new"
        /\ \E m \in Mutants([k |-> case.k, a |-> case.a]) :
             /\ case' = [case EXCEPT !.op = m.op, !.s = (IF case.pre THEN PingFirst ELSE <<>>) \o m.s]
             /\ conn' = RecvAll(case'.s)
             /\ PrintT(<<"TR", ToJson([k |-> case.k, a |-> case.a, op |-> m.op, pre |-> case.pre, s |-> case'.s, exp |-> Outcome(conn')])>>)
        /\ phase' = "sent"
Spec == Init /\ [][Send]_vars

\* bad input is contained: never a crash; whatever was received, the connection is either closed,
\* or still parsing (an incomplete request waits in the carry-over buffer), or everything was consumed
Contained == /\ ~conn.crashed
             /\ phase = "sent" => \/ conn.closed
                                  \/ conn.carry = <<>>
                                  \/ ParseOne(conn.carry).st = "inc"
\* a protocol error always closes the connection
ErrorCloses == phase = "sent" /\ ~conn.closed /\ conn.carry # <<>> => ParseOne(conn.carry).st # "err"

\* ---- simulation: random byte strings and random multi-edit mutants ----
RE(S) == RandomElement(S)
\* (operators take a state-dependent argument: TLC evaluates parameterless constant-level definitions only once)
RandBytes(z) == LET n == RE(1..SimLen) IN [i \in 1..n |-> RE(SimAlphabet)]
RECURSIVE Edit(_, _)
Edit(e, k) ==
  IF k = 0 \/ e = <<>> THEN e
  ELSE LET i == RE(1..Len(e))
           b == RE(SimAlphabet)
           o == RE({"del", "rep", "ins", "dup"})
       IN Edit(CASE o = "del" -> Sub(e, 1, i - 1) \o From(e, i + 1)
                 [] o = "rep" -> Sub(e, 1, i - 1) \o <<b>> \o From(e, i + 1)
                 [] o = "ins" -> Sub(e, 1, i - 1) \o <<b>> \o From(e, i)
                 [] o = "dup" -> Sub(e, 1, i) \o From(e, i), k - 1)
RandFrame(z) == [k |-> RE(Kinds), a |-> RE(BaseCmds)]
SimCase(z) ==
  LET ok(x) == IF Encodable(x) THEN x ELSE [k |-> "resp", a |-> x.a] IN
  \* (bound by quantifiers over singletons: a LET definition would be drawn again at every use)
  CHOOSE c \in UNION {UNION {{
      CASE mode = "bytes" -> [k |-> "random", a |-> <<>>, op |-> <<"random-bytes", 0, 0>>, pre |-> FALSE, s |-> RandBytes(z)]
        [] mode = "edit"  -> [k |-> f.k, a |-> f.a, op |-> <<"random-edits", 0, 0>>, pre |-> FALSE, s |-> Edit(Enc(f), RE(1..3))]
        [] mode = "two"   -> [k |-> f.k, a |-> f.a, op |-> <<"random-edits-after-frame", 0, 0>>, pre |-> FALSE,
                              s |-> (IF IsHTTP(g) THEN PingFirst ELSE Enc(g)) \o Edit(Enc(f), RE(1..2))]
      : mode \in {RE({"bytes", "bytes", "edit", "edit", "edit", "two"})}}
      : f \in {ok(RandFrame(z))}} : g \in {ok(RandFrame(z))}} : TRUE

SimInit == case = NoCase /\ conn = InitConn /\ phase = "new"
SimGen == /\ phase = "new"
          /\ case' = SimCase(conn)
          /\ conn' = RecvAll(case'.s)
          /\ phase' = "sent"
          /\ PrintT(<<"TR", ToJson([k |-> case'.k, a |-> case'.a, op |-> case'.op, pre |-> FALSE, s |-> case'.s, exp |-> Outcome(conn')])>>)
SimReset == phase = "sent" /\ phase' = "new" /\ case' = NoCase /\ conn' = InitConn
SimSpec == SimInit /\ [][SimGen \/ SimReset]_vars
=============================================================================
