------------------------------ MODULE GlobGen ------------------------------
(* Case generator for Glob (C12).  TLC enumerates every pattern of length   *)
(* <= MaxPat over the byte alphabet (or over an alphabet of whole glob      *)
(* terms) as an initial state, computes its full match set over the         *)
(* universe of all strings of length <= MaxStr (sorted in byte order) and   *)
(* prints it as one JSON case; the harness runs the case                    *)
(* against glob.Match / glob.Parse in-package and against every user of the *)
(* range shortcut on a real server whose keyspace holds the whole universe. *)
(* Checked on the design while generating: the intended limits are sound,   *)
(* literals match only themselves, '*' matches everything.                  *)
EXTENDS Glob, Json, TLC

CONSTANTS AlphaSeq,   \* the byte alphabet, ascending
          MaxStr,     \* universe: all strings of length <= MaxStr
          PatMode,    \* "bytes": patterns are all byte strings over the alphabet;
                      \* "terms": patterns are all concatenations of elements of TermSeq (whole glob terms:
                      \*          classes with ranges / negation / escapes, escaped metacharacters, ...)
          TermSeq,    \* sequence of byte strings
          MinPat,     \* patterns of MinPat..MaxPat bytes (terms)
          MaxPat,
          Corrupt     \* self-test of the binding: 0 = off; n > 0 drops the n-th universe string from every match set it is in

ASSUME \A i \in 1..(Len(AlphaSeq) - 1) : AlphaSeq[i] < AlphaSeq[i + 1]

Alpha == {AlphaSeq[i] : i \in 1..Len(AlphaSeq)}

Universe == StrsUpTo(AlphaSeq, MaxStr)
UIdx == 1..Len(Universe)
UniverseSorted == \A i \in 1..(Len(Universe) - 1) : SLess(Universe[i], Universe[i + 1])

RECURSIVE Flatten(_)
Flatten(ts) == IF ts = <<>> THEN <<>> ELSE TermSeq[ts[1]] \o Flatten(Tail(ts))
Patterns(mode) == IF mode = "bytes" THEN UNION {[1..n -> Alpha] : n \in MinPat..MaxPat}
                  ELSE {Flatten(ts) : ts \in UNION {[1..n -> 1..Len(TermSeq)] : n \in MinPat..MaxPat}}
MyPatterns == Patterns(PatMode)

VARIABLES p, m, done
vars == <<p, m, done>>

Rev(s) == [i \in 1..Len(s) |-> s[Len(s) + 1 - i]]

\* indices (ascending = byte order) of the universe strings that match q
MatchIdx(q) == LET r == Parse(q)
               IN SelectSeq([i \in UIdx |-> i], LAMBDA i : MatchParsed(r, Universe[i]) /\ i # Corrupt)

Case(q, mi) == [kind |-> "glob", p |-> q, bad |-> ~Parse(q).ok, cls |-> PrefixClass(q),
                m |-> mi,            \* ASC result: indices into the universe
                d |-> Rev(mi),       \* DESC result: the reverse, nothing else
                n |-> Len(mi)]       \* COUNT

Init == p \in MyPatterns /\ m = <<>> /\ done = FALSE
Next == /\ ~done
        /\ done' = TRUE /\ p' = p
        /\ m' = MatchIdx(p)
        /\ PrintT(<<"TR", ToJson(Case(p, m'))>>)
Spec == Init /\ [][Next]_vars

\* the universe is printed once, before any case
ASSUME PrintT(<<"TR", ToJson([kind |-> "universe", alpha |-> AlphaSeq, maxstr |-> MaxStr, strs |-> Universe])>>)
ASSUME UniverseSorted

-----------------------------------------------------------------------------
(* Properties of the design, checked for every pattern of the bound.        *)
Matched == {Universe[m[i]] : i \in 1..Len(m)}
\* the intended range shortcut never excludes a matching string (ASC and DESC, id walk and value walk)
IntendedRangeSound ==
  done => \A d \in BOOLEAN : LET l == IntendedLimits(p, d) IN
            \A s \in Matched : InRange(s, l[1], l[2], d) /\ InRangeValues(s, l[1], l[2], d)
\* a pattern without any special byte matches exactly itself
IsPlainLiteral(q) == \A i \in 1..Len(q) : q[i] \notin {Star, QMark, LBrack, BSlash}
LiteralMatchesSelf ==
  (done /\ IsPlainLiteral(p) /\ Corrupt = 0) => Matched = (IF Len(p) <= MaxStr THEN {p} ELSE {})
StarMatchesAll == (done /\ p = <<Star>> /\ Corrupt = 0) => Len(m) = Len(Universe)
\* a malformed pattern matches nothing
MalformedMatchesNothing == (done /\ ~Parse(p).ok) => m = <<>>
\* named deviation: the limits as glob.Parse computes them (ascending) are NOT sound
CodedRangeSound ==
  done => LET l == CodedLimitsAsc(p) IN \A s \in Matched : InRange(s, l[1], l[2], FALSE)
=============================================================================
