---------------------------- MODULE PrewriteGen ----------------------------
(* Schedule generator for Prewrite: every transition of the reachable graph *)
(* of the protocol model (as-coded shape: all gate steps present) is printed *)
(* as one shortest schedule, a sequence of [c |-> connection, a |-> action]. *)
(* The harness forces each schedule on the real server through the gates.   *)
EXTENDS Prewrite, Json

VARIABLES hist, fin
gvars == <<vars, hist, fin>>

GInit == Init /\ hist = <<>> /\ fin = FALSE

Log(c, a) == hist' = Append(hist, [c |-> c, a |-> a])

GStep == \/ \E c \in Conn :
              \/ Exec(c) /\ Log(c, "exec")
              \/ ExecThenLive(c) /\ Log(c, "execlive")
              \/ TestDirty(c) /\ Log(c, "step")
              \/ LockFlushUnlock(c) /\ Log(c, "step")
              \/ ClearDirty(c) /\ Log(c, "step")
              \/ SockWrite(c) /\ Log(c, "step")
         \/ BgSync /\ Log(0, "bg")
GNext == GStep /\ UNCHANGED fin

GSpec == GInit /\ [][GNext]_gvars
View == vars
Emit == [][PrintT(<<"TR", ToJson(hist')>>)]_gvars

\* random schedules for larger configurations (tlc -simulate): printed once when all work is done
AllDone == \A c \in Conn : done[c] = NCmd /\ pc[c] = "read"
SimNext == \/ GNext
           \/ /\ AllDone /\ ~fin /\ fin' = TRUE /\ UNCHANGED <<vars, hist>>
              /\ PrintT(<<"TR", ToJson(hist)>>)
SimSpec == GInit /\ [][SimNext]_gvars
=============================================================================
