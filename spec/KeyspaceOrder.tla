--------------------------- MODULE KeyspaceOrder ---------------------------
(* Trace validation for concurrent executions (C07, C18).  The harness       *)
(* records, in the order in which the server lock was held (per-lock         *)
(* sequence number taken by the hooks while the lock is held), every command *)
(* and every script call that took effect, as abstract Keyspace commands.    *)
(* This module runs the sequential model along that order and prints, for    *)
(* every line, the reply the model gives at that point, whether the command  *)
(* must be logged and whether it changes the dataset; at the end of each run *)
(* it prints the dataset.  The harness compares them with the real replies,  *)
(* the real lock modes, the real log and the real final dataset: the         *)
(* execution is linearizable in lock order iff they all agree.               *)
EXTENDS Keyspace, Json

Trace == ndJsonDeserialize("order.ndjson")

VARIABLES l, st
vars == <<l, st>>

Init == l = 1 /\ st = EmptyState

Next == /\ l <= Len(Trace)
        /\ LET e == Trace[l] IN
           CASE e.e = "reset" -> st' = EmptyState
             [] e.e = "end"   -> /\ st' = st
                                 /\ PrintT(<<"EX", ToJson([l |-> l, rr |-> [t |-> "end"], upd |-> FALSE, changed |-> FALSE, post |-> st])>>)
             [] e.e = "cmd"   -> LET r == Apply(st, e.c) IN
                                 /\ st' = r.st
                                 /\ PrintT(<<"EX", ToJson([l |-> l, rr |-> r.rr, upd |-> r.upd, changed |-> (r.st # st)])>>)
        /\ l' = l + 1
        /\ TLCSet(1, l')

Spec == Init /\ [][Next]_vars
Accepted == TLCGet(1) = Len(Trace) + 1
=============================================================================
