------------------------------- MODULE Notify -------------------------------
(***************************************************************************)
(* C10  Notification delivery of tile38: webhooks, pub/sub channels and     *)
(* live fences - nothing lost, nothing duplicated, in write order.          *)
(*                                                                          *)
(* One action per critical section of the Go code:                          *)
(*                                                                          *)
(*  the write (server write lock held from WStart to CLive)                 *)
(*   WStart     handleInputCommand: s.mu.Lock, the command is applied, its  *)
(*              position in the log is fixed (aof.go writeAOF)              *)
(*   GStart/PApp aof.go queueHooks -> Server.Publish for every channel      *)
(*              message of the write, in sortMsgs order                     *)
(*   CQueue     aof.go queueHooks: ONE qdb.Update that inserts the webhook  *)
(*              messages under increasing qidx with the 30 s TTL            *)
(*   CSignal    aof.go queueHooks: hook.Signal() for every hook concerned   *)
(*   CLive      aof.go writeAOF: append to s.lstack when a live fence       *)
(*              exists; the deferred unlock                                 *)
(*  the webhook sender of one hook (hooks.go Hook.manager / Hook.proc)      *)
(*   HTop       manager: closed? sig := h.sig, unlock                       *)
(*   HTake      proc: ONE transaction collecting this hook's entries in     *)
(*              index order (expired ones are skipped) and deleting them    *)
(*   HTry       proc: epm.Send to the next endpoint of the hook             *)
(*   HReinsert  proc: ONE transaction re-inserting the unsent tail under    *)
(*              the same keys with the remaining TTL                        *)
(*   HSleep     manager: time.Sleep(500ms) - with the hook's mutex held -   *)
(*              continue                                                    *)
(*   HCheck     manager: sig != h.sig || closed ? continue : cond.Wait      *)
(*   HOpen      Hook.OpenAfter: a redefined hook opens its manager when the *)
(*              manager of the previous definition has ended                *)
(*  client PUBLISH and subscribers (pubsub.go)                              *)
(*   PStart/PApp Server.Publish: targets collected under pubsub.mu.RLock,   *)
(*              then appended target by target under the target's lock      *)
(*   SReg       liveSubscription: pubsub.register, then writeSubscribe      *)
(*   STake/SWrite  the single writer goroutine of a subscriber connection   *)
(*  live fences (live.go)                                                   *)
(*   LReg       goLive: s.lives[lb] = true, then the +OK                    *)
(*   LDist      processLives: pop the head of lstack, append it to every    *)
(*              registered buffer of that key                               *)
(*   LEval      goLive main loop: pop the buffer, FenceMatch, write         *)
(*  the environment: endpoint status flips, identical / changed SETHOOK,    *)
(*  ticks of the retention clock.  Client-side stamps (command sent, reply  *)
(*  read) are taken together with the first / last server step of an       *)
(*  operation (see the comment at the variables).                          *)
(*                                                                          *)
(* Every way in which a plausible implementation goes wrong is a named      *)
(* value of Variant; TLC shows that "intended" (= the code as read)         *)
(* satisfies the properties and that each variant is refuted.               *)
(*                                                                          *)
(* Tokens.  Keys, hooks, channels, patterns, endpoints, connections are     *)
(* 1..n; hook / channel names are ordered by index (the harness names them  *)
(* so that byte order = index order).  A detect code is the weight of       *)
(* aof.go msgDetectCode (enter 3, inside 4, ...).  A write is a SET of a    *)
(* fresh object inside every fence of its key, so that it produces for a    *)
(* fence f exactly Kinds[f] (one message per detect code, ascending).       *)
(***************************************************************************)
EXTENDS NotifyJudge, TLC

CONSTANTS
  HookKey,    \* HookKey[h]   : key watched by webhook h
  HookKinds,  \* HookKinds[h] : detect codes one write produces for h (ascending sequence)
  HookEps,    \* HookEps[h]   : endpoints of h, tried in this order until one accepts
  NEps,       \* endpoints are 1..NEps
  FailModes,  \* failure modes an endpoint may take: subset of {"refuse", "5xx", "hang"}
  MaxFlips,   \* bound on endpoint status changes
  MaxPokes,   \* bound on spurious signals (SETHOOK with an identical definition)
  MaxReplace, \* bound on SETHOOK redefinitions of a hook; 0 = none
  TTL,        \* retention of a queue entry in ticks
  MaxClock,   \* bound on the clock; 0 = time stands still
  ChanKey,    \* ChanKey[f]   : key watched by channel fence f (SETCHAN); channel f carries its events
  ChanKinds,  \* ChanKinds[f] : detect codes one write produces for f
  NPlain,     \* further channels Len(ChanKey)+1 .. Len(ChanKey)+NPlain used by client PUBLISH only
  PatMatch,   \* PatMatch[p]  : set of channels matched by pattern p
  SubProg,    \* SubProg[s]   : program of subscriber connection s: sequence of
              \*                [op |-> "sub"|"unsub", kind |-> "ch"|"pat", n |-> channel or pattern]
  Prog,       \* Prog[c]      : program of client connection c: sequence of
              \*                [op |-> "pub", n |-> channel] or [op |-> "set", n |-> key] (n = 0: any key)
  NKeys,      \* keys are 1..NKeys
  LiveKey,    \* LiveKey[l]   : key of live fence connection l
  LiveKinds,  \* LiveKinds[l] : detect codes in the order FenceMatch returns them
  Variant,    \* "intended", or one of the broken variants: "reinsert_skips_failed", "reinsert_whole_batch",
              \* "reinsert_new_index", "no_signal_recheck", "signal_before_commit", "redefinition_overlaps",
              \* "ack_before_register", "unordered_writer", "lifo_live_stack"
  Record      \* TRUE: keep the history of events in hist (generators)

Hooks    == 1..Len(HookKey)
Eps      == 1..NEps
Fences   == 1..Len(ChanKey)
Channels == 1..(Len(ChanKey) + NPlain)
Pats     == 1..Len(PatMatch)
Subs     == 1..Len(SubProg)
Conns    == 1..Len(Prog)
Lives    == 1..Len(LiveKey)
Keys     == 1..NKeys

Range(s) == {s[i] : i \in 1..Len(s)}

ASSUME ConfigSane ==
  /\ \A h \in Hooks : HookKey[h] \in Keys /\ HookEps[h] # <<>> /\ Range(HookEps[h]) \subseteq Eps
  /\ \A f \in Fences : ChanKey[f] \in Keys
  /\ \A p \in Pats : PatMatch[p] \subseteq Channels
  /\ \A l \in Lives : LiveKey[l] \in Keys
  /\ \A c \in Conns : Len(Prog[c]) <= 10
  /\ \A s \in Subs : Len(SubProg[s]) <= 10

-----------------------------------------------------------------------------
(* Messages of one write, in the order of aof.go sortMsgs: by detect code,  *)
(* then by fence name.                                                      *)
MsgLess(a, b) == a.d < b.d \/ (a.d = b.d /\ a.f < b.f)
RECURSIVE SortMsgs(_)
SortMsgs(S) == IF S = {} THEN <<>>
               ELSE LET m == CHOOSE x \in S : \A y \in S : x = y \/ MsgLess(x, y)
                    IN <<m>> \o SortMsgs(S \ {m})
MsgsFor(F, key, kinds, k) ==
  SortMsgs({[f |-> p[1], d |-> kinds[p[1]][p[2]]] :
              p \in {pp \in F \X (1..2) : key[pp[1]] = k /\ pp[2] <= Len(kinds[pp[1]])}})
HookMsgsT == [k \in Keys |-> MsgsFor(Hooks, HookKey, HookKinds, k)]
ChanMsgsT == [k \in Keys |-> MsgsFor(Fences, ChanKey, ChanKinds, k)]
HookMsgs(k) == HookMsgsT[k]
ChanMsgs(k) == ChanMsgsT[k]
ASSUME KindsSane ==
  /\ \A h \in Hooks : Len(HookKinds[h]) \in 1..2 /\ Range(HookKinds[h]) \subseteq 3..4
                      /\ (Len(HookKinds[h]) = 2 => HookKinds[h][1] < HookKinds[h][2])
  /\ \A f \in Fences : Len(ChanKinds[f]) \in 1..2 /\ Range(ChanKinds[f]) \subseteq 3..4
                      /\ (Len(ChanKinds[f]) = 2 => ChanKinds[f][1] < ChanKinds[f][2])
  /\ \A l \in Lives : Len(LiveKinds[l]) \in 1..2 /\ Range(LiveKinds[l]) \subseteq 3..4

\* does a subscription (kind, n) receive what is published on channel ch ?
Covers(kind, n, ch) == IF kind = "ch" THEN n = ch ELSE ch \in PatMatch[n]

-----------------------------------------------------------------------------
VARIABLES
  \* ---- the server's write path
  wlock,    \* 0, or the connection that holds the server write lock
  nw,       \* number of writes applied = position of the last one in the log
  wrote,    \* the writes applied: set of [c, i, w, k]                         (observer)
  cpc, ci,  \* per client connection: control state and index of the current operation
  cw,       \* per client connection: log position and key of its current write
  pend,     \* per client connection: channel messages of the current write still to be published
  snap,     \* per client connection: targets of the current Publish still to be appended to
  cur,      \* per client connection: the message being published
  \* ---- webhook queue and senders
  q,        \* the on-disk queue: set of [idx, h, w, d, exp]
  qidx,     \* last index handed out
  sig, seen, hpc, batch, sent, try,   \* per sender incarnation: hook.sig, the manager's copy, control state, the
            \* entries taken and not yet sent, the entries of this batch already sent, position in HookEps
  inc,      \* per hook: the current incarnation (a SETHOOK redefinition opens a new sender and closes the old)
  ep,       \* per endpoint: "up" or a failure mode
  flips, pokes, clock,
  hgen,     \* per hook: the messages generated for it, in generation order    (observer)
  hdeliv,   \* per hook: the messages an endpoint accepted, in acceptance order (observer)
  hexp,     \* per hook: the messages dropped by the retention                  (observer)
  \* ---- pub/sub
  reg,      \* the registry: set of [s, kind, n]
  spc, si,  \* per subscriber connection: control state, index of the current operation
  tq, wb,   \* per subscriber connection: the target's queue, the batch its writer goroutine holds
  stream,   \* per subscriber connection: the messages written to its socket     (observer)
  pubd,     \* the messages handed to Server.Publish so far: set of [c, i, ch, d, w] (observer)
  \* ---- live fences
  lives, lpc, lstack, lbuf, lstream,
  \* ---- what the clients know: real-time precedence, kept as relations instead of tickets.  A client-side stamp is
  \*      taken together with the first / last server step of the operation: a stamp taken later (earlier) only
  \*      enlarges (shrinks) the sets below, and the judgement is monotone in them, so the model proves MORE than
  \*      what a client that stamps when it sends / receives can demand
  done,     \* operations <<c, i>> that are complete
  acked,    \* subscription instances <<s, j>> whose acknowledgement has been received
  unacked,  \* subscription instances whose UNSUBSCRIBE acknowledgement has been received
  lacked,   \* live connections whose +OK has been received
  at,       \* per operation <<c, i>>: [ack, un, lack, done] as they were when it began
  sat,      \* per subscriber operation <<s, j>>: the set done when it began
  lat,      \* per live connection: the set done when it was requested
  hist      \* recorded events (only if Record)

gvars == <<wlock, nw, wrote>>
cvars == <<cpc, ci, cw, pend, snap, cur>>
qvars == <<q, qidx>>
mvars == <<sig, seen, hpc, batch, sent, try, inc>>
evars == <<ep, flips, pokes, clock>>
ovars == <<hgen, hdeliv, hexp>>
hvars == <<qvars, mvars, evars, ovars>>
rvars == <<reg, spc, si>>
tvars == <<tq, wb, stream, pubd>>
svars == <<rvars, tvars>>
lvars == <<lives, lpc, lstack, lbuf, lstream>>
kvars == <<done, acked, unacked, lacked, at, sat, lat>>
vars  == <<gvars, cvars, hvars, svars, lvars, kvars, hist>>

Incs == 0..MaxReplace                 \* sender incarnations of a hook
Log(e) == hist' = IF Record THEN Append(hist, e) ELSE hist
NoLog  == UNCHANGED hist

Init ==
  /\ wlock = 0 /\ nw = 0 /\ wrote = {}
  /\ cpc = [c \in Conns |-> "idle"] /\ ci = [c \in Conns |-> 1] /\ cw = [c \in Conns |-> [w |-> 0, k |-> 0]]
  /\ pend = [c \in Conns |-> <<>>] /\ snap = [c \in Conns |-> {}] /\ cur = [c \in Conns |-> <<>>]
  /\ q = {} /\ qidx = 0
  /\ sig = [h \in Hooks |-> [n \in Incs |-> 0]] /\ seen = [h \in Hooks |-> [n \in Incs |-> 0]]
  /\ hpc = [h \in Hooks |-> [n \in Incs |-> IF n = 0 THEN "top" ELSE "none"]]
  /\ batch = [h \in Hooks |-> [n \in Incs |-> <<>>]] /\ sent = [h \in Hooks |-> [n \in Incs |-> <<>>]]
  /\ try = [h \in Hooks |-> [n \in Incs |-> 1]]
  /\ inc = [h \in Hooks |-> 0]
  /\ ep = [e \in Eps |-> "up"] /\ flips = 0 /\ pokes = 0 /\ clock = 0
  /\ hgen = [h \in Hooks |-> <<>>] /\ hdeliv = [h \in Hooks |-> <<>>] /\ hexp = [h \in Hooks |-> {}]
  /\ reg = {} /\ spc = [s \in Subs |-> "idle"] /\ si = [s \in Subs |-> 1]
  /\ tq = [s \in Subs |-> <<>>] /\ wb = [s \in Subs |-> <<>>] /\ stream = [s \in Subs |-> <<>>] /\ pubd = {}
  /\ lives = {} /\ lpc = [l \in Lives |-> "idle"] /\ lstack = <<>>
  /\ lbuf = [l \in Lives |-> <<>>] /\ lstream = [l \in Lives |-> <<>>]
  /\ done = {} /\ acked = {} /\ unacked = {} /\ lacked = {}
  /\ at = [x \in {} |-> 0] /\ sat = [x \in {} |-> 0] /\ lat = [x \in {} |-> 0]
  /\ hist = <<>>

\* at / sat / lat are functions whose domain grows
Put(f, k, v) == [x \in DOMAIN f \cup {k} |-> IF x = k THEN v ELSE f[x]]

-----------------------------------------------------------------------------
(* Client connections: PUBLISH and SET.                                     *)
Op(c) == Prog[c][ci[c]]
Stamp(c) == at' = Put(at, <<c, ci[c]>>, [ack |-> acked, un |-> unacked, lack |-> lacked, done |-> done])
\* the reply is received: the operation is complete
Finish(c) == /\ done' = done \cup {<<c, ci[c]>>}
             /\ ci' = [ci EXCEPT ![c] = @ + 1]
             /\ cpc' = [cpc EXCEPT ![c] = "idle"]

Targets(ch) == {r \in reg : Covers(r.kind, r.n, ch)}
Item(m, r) == [c |-> m.c, i |-> m.i, ch |-> m.ch, d |-> m.d, w |-> m.w, kind |-> r.kind, n |-> r.n]

\* Server.Publish, first half: the targets are collected under the registry lock
PStart(c) ==
  /\ cpc[c] = "idle" /\ ci[c] <= Len(Prog[c]) /\ Op(c).op = "pub"
  /\ LET m == [c |-> c, i |-> ci[c], ch |-> Op(c).n, d |-> 0, w |-> 0] IN
       /\ pubd' = pubd \cup {m}
       /\ cur' = [cur EXCEPT ![c] = m]
       /\ snap' = [snap EXCEPT ![c] = Targets(m.ch)]
       /\ IF Targets(m.ch) = {}
          THEN /\ done' = done \cup {<<c, ci[c]>>} /\ ci' = [ci EXCEPT ![c] = @ + 1] /\ UNCHANGED cpc
               /\ at' = Put(at, <<c, ci[c]>>, [ack |-> acked, un |-> unacked, lack |-> lacked, done |-> done])
          ELSE /\ cpc' = [cpc EXCEPT ![c] = "app"] /\ Stamp(c) /\ UNCHANGED <<done, ci>>
  /\ UNCHANGED <<gvars, cw, pend, hvars, rvars, tq, wb, stream, lvars, acked, unacked, lacked, sat, lat>> /\ NoLog

\* the phases of a write that have something to do, in the order of the code
AfterGeo(k) == IF HookMsgs(k) # <<>> THEN "queue" ELSE "live"

\* second half: one target at a time, under the target's lock, in map order (= any order)
PApp(c) ==
  /\ cpc[c] \in {"app", "gapp"} /\ snap[c] # {}
  /\ \E r \in snap[c] :
       /\ tq' = [tq EXCEPT ![r.s] = Append(@, Item(cur[c], r))]
       /\ snap' = [snap EXCEPT ![c] = @ \ {r}]
       /\ IF snap[c] # {r} THEN UNCHANGED <<cpc, ci, done>>
          ELSE IF cpc[c] = "app" THEN Finish(c)
          ELSE /\ cpc' = [cpc EXCEPT ![c] = IF pend[c] # <<>> THEN "geo" ELSE AfterGeo(cw[c].k)]
               /\ UNCHANGED <<ci, done>>
  /\ UNCHANGED <<gvars, cw, pend, cur, hvars, rvars, wb, stream, pubd, lvars, acked, unacked, lacked, at, sat, lat>> /\ NoLog

\* handleInputCommand takes the write lock; the SET is applied and gets its place in the log
WStart(c) ==
  /\ cpc[c] = "idle" /\ ci[c] <= Len(Prog[c]) /\ Op(c).op = "set" /\ wlock = 0
  /\ \E k \in (IF Op(c).n = 0 THEN Keys ELSE {Op(c).n}) :
       /\ wlock' = c /\ nw' = nw + 1
       /\ wrote' = wrote \cup {[c |-> c, i |-> ci[c], w |-> nw + 1, k |-> k]}
       /\ cw' = [cw EXCEPT ![c] = [w |-> nw + 1, k |-> k]]
       /\ pend' = [pend EXCEPT ![c] = ChanMsgs(k)]
       /\ cpc' = [cpc EXCEPT ![c] = IF ChanMsgs(k) # <<>> THEN "geo" ELSE AfterGeo(k)]
       /\ Log([a |-> "write", c |-> c, k |-> k, w |-> nw + 1])
  /\ Stamp(c)
  /\ UNCHANGED <<ci, snap, cur, hvars, svars, lvars, done, acked, unacked, lacked, sat, lat>>

\* queueHooks: s.Publish(channel of the fence, message) for the next channel message of the write
GStart(c) ==
  /\ cpc[c] = "geo" /\ pend[c] # <<>>
  /\ LET f == Head(pend[c])
         m == [c |-> c, i |-> ci[c], ch |-> f.f, d |-> f.d, w |-> cw[c].w] IN
       /\ pubd' = pubd \cup {m}
       /\ cur' = [cur EXCEPT ![c] = m]
       /\ snap' = [snap EXCEPT ![c] = Targets(m.ch)]
       /\ cpc' = [cpc EXCEPT ![c] = IF Targets(m.ch) # {} THEN "gapp"
                                    ELSE IF Tail(pend[c]) # <<>> THEN "geo" ELSE AfterGeo(cw[c].k)]
  /\ pend' = [pend EXCEPT ![c] = Tail(@)]
  /\ UNCHANGED <<gvars, ci, cw, hvars, rvars, tq, wb, stream, lvars, kvars>> /\ NoLog

\* queueHooks: one transaction inserts the webhook messages of the write in sortMsgs order
Entries(c) == LET ms == HookMsgs(cw[c].k) IN
  {[idx |-> qidx + j, h |-> ms[j].f, w |-> cw[c].w, d |-> ms[j].d, exp |-> clock + TTL] : j \in 1..Len(ms)}
GenOf(c, h) == [j \in 1..Len(HookKinds[h]) |-> [w |-> cw[c].w, d |-> HookKinds[h][j]]]
Concerned(c) == {h \in Hooks : HookKey[h] = cw[c].k}

\* Hook.Signal / Hook.Close take the hook's mutex.  The manager holds it whenever it is not inside proc or
\* cond.Wait - in particular during its 500 ms retry sleep (the deferred re-lock runs before time.Sleep): a write
\* that concerns a hook whose endpoint is failing waits, under the server's write lock, until that sleep is over
MutexFree(hs) == \A h \in hs : hpc[h][inc[h]] # "sleep"
Signal(hs) == sig' = [h \in Hooks |-> [n \in Incs |-> IF h \in hs /\ n = inc[h] THEN sig[h][n] + 1 ELSE sig[h][n]]]
\* cond.Broadcast wakes a manager that is inside cond.Wait
Woken(hs)  == hpc' = [h \in Hooks |-> [n \in Incs |-> IF h \in hs /\ n = inc[h] /\ hpc[h][n] = "wait" THEN "top" ELSE hpc[h][n]]]

Commit(c) == /\ q' = q \cup Entries(c)
             /\ qidx' = qidx + Len(HookMsgs(cw[c].k))
             /\ hgen' = [h \in Hooks |-> IF h \in Concerned(c) THEN hgen[h] \o GenOf(c, h) ELSE hgen[h]]

CQueue(c) ==
  /\ cpc[c] = "queue" /\ Variant # "signal_before_commit"
  /\ Commit(c)
  /\ cpc' = [cpc EXCEPT ![c] = "signal"]
  /\ UNCHANGED <<gvars, ci, cw, pend, snap, cur, mvars, evars, hdeliv, hexp, svars, lvars, kvars>> /\ NoLog

CSignal(c) ==
  /\ cpc[c] = "signal" /\ MutexFree(Concerned(c))
  /\ Signal(Concerned(c)) /\ Woken(Concerned(c))
  /\ cpc' = [cpc EXCEPT ![c] = "live"]
  /\ UNCHANGED <<gvars, ci, cw, pend, snap, cur, qvars, seen, batch, sent, try, inc, evars, ovars, svars, lvars, kvars>> /\ NoLog

\* Variant "signal_before_commit": the hooks are signalled before the transaction commits
CSignalEarly(c) ==
  /\ Variant = "signal_before_commit" /\ cpc[c] = "queue" /\ MutexFree(Concerned(c))
  /\ Signal(Concerned(c)) /\ Woken(Concerned(c))
  /\ cpc' = [cpc EXCEPT ![c] = "queue2"]
  /\ UNCHANGED <<gvars, ci, cw, pend, snap, cur, qvars, seen, batch, sent, try, inc, evars, ovars, svars, lvars, kvars>> /\ NoLog
CQueueLate(c) ==
  /\ cpc[c] = "queue2"
  /\ Commit(c)
  /\ cpc' = [cpc EXCEPT ![c] = "live"]
  /\ UNCHANGED <<gvars, ci, cw, pend, snap, cur, mvars, evars, hdeliv, hexp, svars, lvars, kvars>> /\ NoLog

\* writeAOF: the write goes onto the live stack when a live fence exists; the lock is released, the reply sent
CLive(c) ==
  /\ cpc[c] = "live"
  /\ lstack' = IF lives # {} THEN Append(lstack, [c |-> c, i |-> ci[c], w |-> cw[c].w, k |-> cw[c].k]) ELSE lstack
  /\ wlock' = 0
  /\ Finish(c)
  /\ UNCHANGED <<nw, wrote, cw, pend, snap, cur, hvars, svars, lives, lpc, lbuf, lstream, acked, unacked, lacked, at, sat, lat>>
  /\ NoLog

-----------------------------------------------------------------------------
(* The webhook sender of hook h, incarnation n (Hook.manager, Hook.proc).   *)
Closed(h, n) == n < inc[h]
Mine(h)  == {e \in q : e.h = h /\ e.exp > clock}       \* scans skip expired entries
RECURSIVE ByIdx(_)
ByIdx(S) == IF S = {} THEN <<>>
            ELSE LET m == CHOOSE x \in S : \A y \in S : x.idx <= y.idx IN <<m>> \o ByIdx(S \ {m})

HTop(h, n) ==
  /\ hpc[h][n] = "top"
  /\ IF Closed(h, n)
     THEN hpc' = [hpc EXCEPT ![h][n] = "exit"] /\ UNCHANGED seen
     ELSE hpc' = [hpc EXCEPT ![h][n] = "take"] /\ seen' = [seen EXCEPT ![h][n] = sig[h][n]]
  /\ UNCHANGED <<gvars, cvars, qvars, sig, batch, sent, try, inc, evars, ovars, svars, lvars, kvars>> /\ NoLog

HTake(h, n) ==
  /\ hpc[h][n] = "take"
  /\ batch' = [batch EXCEPT ![h][n] = ByIdx(Mine(h))]
  /\ sent' = [sent EXCEPT ![h][n] = <<>>]
  /\ q' = q \ Mine(h)
  /\ try' = [try EXCEPT ![h][n] = 1]
  /\ hpc' = [hpc EXCEPT ![h][n] = "send"]
  /\ Log([a |-> "take", h |-> h, inc |-> n, n |-> Cardinality(Mine(h))])
  /\ UNCHANGED <<gvars, cvars, qidx, sig, seen, inc, evars, ovars, svars, lvars, kvars>>

\* one epm.Send: the next endpoint of the hook gets the head of the batch
HTry(h, n) ==
  /\ hpc[h][n] = "send" /\ batch[h][n] # <<>>
  /\ LET m == Head(batch[h][n])
         e == HookEps[h][try[h][n]]
     IN /\ Log([a |-> "try", h |-> h, inc |-> n, e |-> e, w |-> m.w, d |-> m.d, idx |-> m.idx, res |-> ep[e],
                pos |-> Len(sent[h][n]) + 1, size |-> Len(sent[h][n]) + Len(batch[h][n])])
        /\ IF ep[e] = "up"
           THEN /\ hdeliv' = [hdeliv EXCEPT ![h] = Append(@, [w |-> m.w, d |-> m.d, e |-> e])]
                /\ batch' = [batch EXCEPT ![h][n] = Tail(@)]
                /\ sent' = [sent EXCEPT ![h][n] = Append(@, m)]
                /\ try' = [try EXCEPT ![h][n] = 1]
                /\ UNCHANGED hpc
           ELSE /\ IF try[h][n] < Len(HookEps[h])
                   THEN try' = [try EXCEPT ![h][n] = @ + 1] /\ UNCHANGED hpc
                   ELSE try' = [try EXCEPT ![h][n] = 1] /\ hpc' = [hpc EXCEPT ![h][n] = "reinsert"]
                /\ UNCHANGED <<hdeliv, batch, sent>>
  /\ UNCHANGED <<gvars, cvars, qvars, sig, seen, inc, evars, hgen, hexp, svars, lvars, kvars>>

HSent(h, n) ==
  /\ hpc[h][n] = "send" /\ batch[h][n] = <<>>
  /\ hpc' = [hpc EXCEPT ![h][n] = "check"]
  /\ UNCHANGED <<gvars, cvars, qvars, sig, seen, batch, sent, try, inc, evars, ovars, svars, lvars, kvars>> /\ NoLog

\* what goes back into the queue after a failed send
Back(h, n) ==
  CASE Variant = "reinsert_skips_failed" -> Range(Tail(batch[h][n]))
    [] Variant = "reinsert_whole_batch"  -> Range(sent[h][n]) \cup Range(batch[h][n])
    [] OTHER                             -> Range(batch[h][n])
RECURSIVE Renumber(_, _)
Renumber(s, from) == IF s = <<>> THEN {} ELSE {[Head(s) EXCEPT !.idx = from + 1]} \cup Renumber(Tail(s), from + 1)

HReinsert(h, n) ==
  /\ hpc[h][n] = "reinsert"
  /\ LET keep == {e \in Back(h, n) : e.exp > clock}          \* remaining TTL > 0
         lost == {e \in Range(batch[h][n]) : e.exp <= clock}
     IN /\ IF Variant = "reinsert_new_index"
           THEN /\ q' = q \cup Renumber(ByIdx(keep), qidx) /\ qidx' = qidx + Cardinality(keep)
           ELSE /\ q' = q \cup keep /\ UNCHANGED qidx
        /\ hexp' = [hexp EXCEPT ![h] = @ \cup {[w |-> e.w, d |-> e.d] : e \in lost}]
        /\ Log([a |-> "reinsert", h |-> h, inc |-> n, n |-> Cardinality(keep), dropped |-> Cardinality(lost)])
  /\ batch' = [batch EXCEPT ![h][n] = <<>>]
  /\ sent' = [sent EXCEPT ![h][n] = <<>>]
  /\ hpc' = [hpc EXCEPT ![h][n] = "sleep"]
  /\ UNCHANGED <<gvars, cvars, sig, seen, try, inc, evars, hgen, hdeliv, svars, lvars, kvars>>

HSleep(h, n) ==
  /\ hpc[h][n] = "sleep"
  /\ hpc' = [hpc EXCEPT ![h][n] = "top"]
  /\ UNCHANGED <<gvars, cvars, qvars, sig, seen, batch, sent, try, inc, evars, ovars, svars, lvars, kvars>> /\ NoLog

\* manager, after a proc that sent everything: `if sig != h.sig || h.closed { continue }; h.cond.Wait()' under the
\* hook's lock.  (Before the repair of D14 the closed flag was not looked at here: a manager whose hook was closed
\* while it was inside proc went to sleep for ever - harmless then, but it must end before its successor opens.)
HCheck(h, n) ==
  /\ hpc[h][n] = "check"
  /\ hpc' = [hpc EXCEPT ![h][n] = IF (Closed(h, n) /\ Variant # "redefinition_overlaps")
                                     \/ (seen[h][n] # sig[h][n] /\ Variant # "no_signal_recheck")
                                  THEN "top" ELSE "wait"]
  /\ UNCHANGED <<gvars, cvars, qvars, sig, seen, batch, sent, try, inc, evars, ovars, svars, lvars, kvars>> /\ NoLog

-----------------------------------------------------------------------------
(* Environment of the webhook path.                                         *)
Flip(e) ==
  /\ flips < MaxFlips
  /\ \E m \in ({"up"} \cup FailModes) \ {ep[e]} :
       /\ ep' = [ep EXCEPT ![e] = m]
       /\ Log([a |-> "flip", e |-> e, mode |-> m])
  /\ flips' = flips + 1
  /\ UNCHANGED <<gvars, cvars, qvars, mvars, pokes, clock, ovars, svars, lvars, kvars>>

\* SETHOOK with an identical definition: "signal just for good measure"
Poke(h) ==
  /\ pokes < MaxPokes /\ wlock = 0 /\ MutexFree({h})
  /\ pokes' = pokes + 1
  /\ Signal({h}) /\ Woken({h})
  /\ Log([a |-> "poke", h |-> h])
  /\ UNCHANGED <<gvars, cvars, qvars, seen, batch, sent, try, inc, ep, flips, clock, ovars, svars, lvars, kvars>>

\* SETHOOK with a different definition: the old manager is closed - it finishes what it is doing, re-inserts
\* what it could not send and ends.  The manager of the new definition is opened when the old one has ended
\* (Hook.OpenAfter).  Variant "redefinition_overlaps" (D14, the code before the repair): it is opened at once, the
\* two managers work on the same hook name concurrently.
Replace(h) ==
  /\ inc[h] < MaxReplace /\ wlock = 0 /\ MutexFree({h})
  /\ inc' = [inc EXCEPT ![h] = @ + 1]
  /\ hpc' = [hpc EXCEPT ![h][inc[h] + 1] = IF Variant = "redefinition_overlaps" THEN "top" ELSE "pending",
                        ![h][inc[h]] = IF @ = "wait" THEN "top" ELSE @]      \* Hook.Close broadcasts
  /\ Log([a |-> "replace", h |-> h])
  /\ UNCHANGED <<gvars, cvars, qvars, sig, seen, batch, sent, try, evars, ovars, svars, lvars, kvars>>

\* the goroutine of OpenAfter: <-prev.done; h.Open()
HOpen(h, n) ==
  /\ hpc[h][n] = "pending" /\ \A m \in Incs : m < n => hpc[h][m] \in {"exit", "none"}
  /\ hpc' = [hpc EXCEPT ![h][n] = "top"]
  /\ UNCHANGED <<gvars, cvars, qvars, sig, seen, batch, sent, try, inc, evars, ovars, svars, lvars, kvars>> /\ NoLog

Tick ==
  /\ clock < MaxClock
  /\ clock' = clock + 1
  /\ Log([a |-> "tick", clock |-> clock + 1])
  /\ UNCHANGED <<gvars, cvars, qvars, mvars, ep, flips, pokes, ovars, svars, lvars, kvars>>

\* buntdb's background sweep removes entries whose deadline has passed
Expire ==
  /\ \E e \in q : e.exp <= clock
  /\ LET gone == {e \in q : e.exp <= clock} IN
       /\ q' = q \ gone
       /\ hexp' = [h \in Hooks |-> hexp[h] \cup {[w |-> e.w, d |-> e.d] : e \in {x \in gone : x.h = h}}]
  /\ UNCHANGED <<gvars, cvars, qidx, mvars, evars, hgen, hdeliv, svars, lvars, kvars>> /\ NoLog

-----------------------------------------------------------------------------
(* Subscriber connections (pubsub.go liveSubscription).                     *)
SOp(s) == SubProg[s][si[s]]
\* the instance an UNSUBSCRIBE cancels: the latest earlier SUBSCRIBE of the same name on this connection
Cancels(s, j) == LET o == SubProg[s][j]
                     c == {i \in 1..(j - 1) : SubProg[s][i].op = "sub" /\ SubProg[s][i].kind = o.kind /\ SubProg[s][i].n = o.n}
                 IN IF c = {} THEN 0 ELSE CHOOSE i \in c : \A x \in c : x <= i

RegUpdate(s) == LET r == [s |-> s, kind |-> SOp(s).kind, n |-> SOp(s).n]
                IN reg' = IF SOp(s).op = "sub" THEN reg \cup {r} ELSE reg \ {r}
Acked(s) == IF SOp(s).op = "sub"
            THEN acked' = acked \cup {<<s, si[s]>>} /\ UNCHANGED unacked
            ELSE unacked' = unacked \cup {<<s, Cancels(s, si[s])>>} /\ UNCHANGED acked

\* the command arrives: pubsub.register / unregister, then the acknowledgement is written
SReg(s) ==
  /\ spc[s] = "idle" /\ si[s] <= Len(SubProg[s]) /\ Variant # "ack_before_register"
  /\ sat' = Put(sat, <<s, si[s]>>, done)
  /\ RegUpdate(s)
  /\ spc' = [spc EXCEPT ![s] = "acked"]
  /\ UNCHANGED <<gvars, cvars, hvars, si, tvars, lvars, done, acked, unacked, lacked, at, lat>> /\ NoLog
\* the client reads the acknowledgement
SRecv(s) ==
  /\ spc[s] = "acked"
  /\ Acked(s)
  /\ si' = [si EXCEPT ![s] = @ + 1] /\ spc' = [spc EXCEPT ![s] = "idle"]
  /\ UNCHANGED <<gvars, cvars, hvars, reg, tvars, lvars, done, lacked, at, sat, lat>> /\ NoLog
\* Variant "ack_before_register": the acknowledgement is written (and may be read) before the registry is updated
SAckFirst(s) ==
  /\ spc[s] = "idle" /\ si[s] <= Len(SubProg[s]) /\ Variant = "ack_before_register"
  /\ sat' = Put(sat, <<s, si[s]>>, done)
  /\ Acked(s)
  /\ spc' = [spc EXCEPT ![s] = "ackread"]
  /\ UNCHANGED <<gvars, cvars, hvars, reg, si, tvars, lvars, done, lacked, at, lat>> /\ NoLog
SRegLate(s) ==
  /\ spc[s] = "ackread"
  /\ RegUpdate(s)
  /\ si' = [si EXCEPT ![s] = @ + 1] /\ spc' = [spc EXCEPT ![s] = "idle"]
  /\ UNCHANGED <<gvars, cvars, hvars, tvars, lvars, kvars>> /\ NoLog

\* the writer goroutine: msgs := target.msgs; target.msgs = nil; write them one by one
STake(s) ==
  /\ wb[s] = <<>> /\ tq[s] # <<>>
  /\ wb' = [wb EXCEPT ![s] = tq[s]] /\ tq' = [tq EXCEPT ![s] = <<>>]
  /\ UNCHANGED <<gvars, cvars, hvars, rvars, stream, pubd, lvars, kvars>> /\ NoLog

RemoveAt(sq, i) == SubSeq(sq, 1, i - 1) \o SubSeq(sq, i + 1, Len(sq))
SWrite(s) ==
  /\ wb[s] # <<>>
  /\ \E i \in (IF Variant = "unordered_writer" THEN 1..Len(wb[s]) ELSE {1}) :
       /\ stream' = [stream EXCEPT ![s] = Append(@, wb[s][i])]
       /\ wb' = [wb EXCEPT ![s] = RemoveAt(@, i)]
  /\ UNCHANGED <<gvars, cvars, hvars, rvars, tq, pubd, lvars, kvars>> /\ NoLog

-----------------------------------------------------------------------------
(* Live fence connections (live.go).                                        *)
\* goLive: s.lives[lb] = true under lcond.L, then the +OK is written
LReg(l) ==
  /\ lpc[l] = "idle"
  /\ lat' = Put(lat, l, done)
  /\ lives' = lives \cup {l}
  /\ lpc' = [lpc EXCEPT ![l] = "acked"]
  /\ UNCHANGED <<gvars, cvars, hvars, svars, lstack, lbuf, lstream, done, acked, unacked, lacked, at, sat>> /\ NoLog
LRecv(l) ==
  /\ lpc[l] = "acked"
  /\ lpc' = [lpc EXCEPT ![l] = "live"]
  /\ lacked' = lacked \cup {l}
  /\ UNCHANGED <<gvars, cvars, hvars, svars, lives, lstack, lbuf, lstream, done, acked, unacked, at, sat, lat>> /\ NoLog

\* processLives: one item leaves the stack and is appended to every registered buffer of its key
LDist ==
  /\ lstack # <<>>
  /\ LET i  == IF Variant = "lifo_live_stack" THEN Len(lstack) ELSE 1
         it == lstack[i]
     IN /\ lbuf' = [l \in Lives |-> IF l \in lives /\ LiveKey[l] = it.k THEN Append(lbuf[l], it) ELSE lbuf[l]]
        /\ lstack' = RemoveAt(lstack, i)
  /\ UNCHANGED <<gvars, cvars, hvars, svars, lives, lpc, lstream, kvars>> /\ NoLog

\* goLive main loop: one buffered write is evaluated and its messages are written
LEval(l) ==
  /\ lbuf[l] # <<>>
  /\ LET it == Head(lbuf[l]) IN
       lstream' = [lstream EXCEPT ![l] = @ \o [j \in 1..Len(LiveKinds[l]) |->
                                                 [c |-> it.c, i |-> it.i, w |-> it.w, d |-> LiveKinds[l][j], ch |-> 0]]]
  /\ lbuf' = [lbuf EXCEPT ![l] = Tail(@)]
  /\ UNCHANGED <<gvars, cvars, hvars, svars, lives, lpc, lstack, kvars>> /\ NoLog

-----------------------------------------------------------------------------
ClientStep(c) == \/ PStart(c) \/ PApp(c) \/ WStart(c) \/ GStart(c) \/ CQueue(c) \/ CSignal(c)
                 \/ CSignalEarly(c) \/ CQueueLate(c) \/ CLive(c)
SenderStep(h, n) == \/ HTop(h, n) \/ HTake(h, n) \/ HTry(h, n) \/ HSent(h, n) \/ HReinsert(h, n)
                    \/ HSleep(h, n) \/ HCheck(h, n) \/ HOpen(h, n)
SubStep(s)    == SReg(s) \/ SRecv(s) \/ SAckFirst(s) \/ SRegLate(s)
WriterStep(s) == STake(s) \/ SWrite(s)
EnvNext    == \/ \E e \in Eps : Flip(e)
              \/ \E h \in Hooks : Poke(h) \/ Replace(h)
              \/ Tick
SysNext == \/ \E c \in Conns : ClientStep(c)
           \/ \E h \in Hooks, n \in Incs : SenderStep(h, n)
           \/ Expire
           \/ \E s \in Subs : SubStep(s) \/ WriterStep(s)
           \/ \E l \in Lives : LReg(l) \/ LRecv(l) \/ LEval(l)
           \/ LDist
Next == SysNext \/ EnvNext

\* weak fairness of everything the server and the (finite) client programs do, never of the faults
Fair == /\ \A c \in Conns : WF_vars(ClientStep(c))
        /\ \A h \in Hooks, n \in Incs : WF_vars(SenderStep(h, n))
        /\ \A s \in Subs : WF_vars(SubStep(s)) /\ WF_vars(WriterStep(s))
        /\ \A l \in Lives : WF_vars(LReg(l) \/ LRecv(l)) /\ WF_vars(LEval(l))
        /\ WF_vars(LDist)
        /\ WF_vars(Expire)
Spec == Init /\ [][Next]_vars /\ Fair
\* the history is not part of the state
View == <<gvars, cvars, hvars, svars, lvars, kvars>>

-----------------------------------------------------------------------------
(* Properties of the webhook path.                                          *)
Msg(x) == [w |-> x.w, d |-> x.d]
MsgSeq(s) == [i \in 1..Len(s) |-> Msg(s[i])]
PosIn(s, m) == CHOOSE i \in 1..Len(s) : s[i] = m
IsSubseqInOrder(sub, full) ==
  /\ Range(sub) \subseteq Range(full)
  /\ \A i, j \in 1..Len(sub) : i < j => PosIn(full, sub[i]) < PosIn(full, sub[j])

\* what an endpoint accepted is a duplicate-free subsequence of what was generated, in generation order
HookInOrderNoDup == \A h \in Hooks : IsSubseqInOrder(MsgSeq(hdeliv[h]), hgen[h])

InFlight(h) == {Msg(e) : e \in {x \in q : x.h = h}} \cup
               UNION {{Msg(e) : e \in Range(batch[h][n])} : n \in Incs}
\* every generated message is delivered, queued, held by a sender, or was dropped by the retention
HookNothingLost == \A h \in Hooks : Range(hgen[h]) = Range(MsgSeq(hdeliv[h])) \cup InFlight(h) \cup hexp[h]
\* ... and without the passage of time nothing is dropped
HookNoDropInTime == (clock < TTL) => \A h \in Hooks : hexp[h] = {}

AllUp == \A e \in Eps : ep[e] = "up"
HookAllDelivered == \A h \in Hooks : Range(MsgSeq(hdeliv[h])) \cup hexp[h] = Range(hgen[h])
\* liveness: once the endpoints stay up, everything that was generated and not dropped by the retention arrives
HookEventuallyAll == <>[]AllUp => <>[]HookAllDelivered
\* generation order is the order of the writes, and within one write the order of the detect codes
HookGenInWriteOrder == \A h \in Hooks : \A i, j \in 1..Len(hgen[h]) :
                          i < j => (hgen[h][i].w < hgen[h][j].w \/ (hgen[h][i].w = hgen[h][j].w /\ hgen[h][i].d < hgen[h][j].d))

-----------------------------------------------------------------------------
(* Subscribers and live fences: the judgement of NotifyJudge, with the      *)
(* precedence relations taken from the state.                               *)
\* same connection: program order; different connections: a was completed before b was sent
OpBefore(a, b)  == (a.c = b.c /\ a.i < b.i) \/ (<<b.c, b.i>> \in DOMAIN at /\ <<a.c, a.i>> \in at[<<b.c, b.i>>].done)
SubBefore(a, b) == GeoBefore(a, b) \/ OpBefore(a, b)

\* ---- subscribers
SubInstances(s) == {j \in 1..Len(SubProg[s]) : SubProg[s][j].op = "sub"}
UnsubOf(s, j) == LET c == {i \in (j + 1)..Len(SubProg[s]) : SubProg[s][i].op = "unsub" /\ Cancels(s, i) = j}
                 IN IF c = {} THEN 0 ELSE CHOOSE i \in c : \A x \in c : i <= x
\* may subscription instance <<s, j>> receive message m at all ?
SubElig(s, j, m) ==
  /\ Covers(SubProg[s][j].kind, SubProg[s][j].n, m.ch)
  /\ <<s, j>> \in DOMAIN sat /\ <<m.c, m.i>> \notin sat[<<s, j>>]          \* m was not completed before the SUBSCRIBE was sent
  /\ <<s, j>> \notin at[<<m.c, m.i>>].un                                   \* m was not sent after the UNSUBSCRIBE was acknowledged
\* does it have to receive m ?
SubMust(s, j, m) ==
  /\ Covers(SubProg[s][j].kind, SubProg[s][j].n, m.ch)
  /\ <<s, j>> \in at[<<m.c, m.i>>].ack                                     \* m was sent after the acknowledgement was received
  /\ LET u == UnsubOf(s, j) IN u = 0 \/ <<s, u>> \notin DOMAIN sat \/ <<m.c, m.i>> \in sat[<<s, u>>]
                                                                           \* and completed before an UNSUBSCRIBE was sent
Tag(m, s, j) == [c |-> m.c, i |-> m.i, ch |-> m.ch, d |-> m.d, w |-> m.w, kind |-> SubProg[s][j].kind, n |-> SubProg[s][j].n]
SubEligItems(s) == {Tag(p[1], s, p[2]) : p \in {pp \in pubd \X SubInstances(s) : SubElig(s, pp[2], pp[1])}}
SubMustItems(s) == {Tag(p[1], s, p[2]) : p \in {pp \in pubd \X SubInstances(s) : SubMust(s, pp[2], pp[1])}}

\* exactly the published messages, none twice, in an order compatible with every connection's order and with the log
SubscriberSafe == \A s \in Subs : StreamSafe(stream[s], SubEligItems(s), SubBefore)

ClientsDone == /\ \A c \in Conns : ci[c] > Len(Prog[c]) /\ cpc[c] = "idle"
               /\ \A s \in Subs : si[s] > Len(SubProg[s]) /\ spc[s] = "idle"
               /\ \A l \in Lives : lpc[l] = "live"
Quiescent == /\ ClientsDone
             /\ \A s \in Subs : tq[s] = <<>> /\ wb[s] = <<>>
             /\ lstack = <<>> /\ \A l \in Lives : lbuf[l] = <<>>
\* a subscriber whose subscription was acknowledged before the event was sent receives it
AckedSubscriberGetsIt == Quiescent => \A s \in Subs : StreamComplete(stream[s], SubMustItems(s))
EventuallyQuiescent == <>[]Quiescent

\* ---- live fences
LiveItemsOf(l, W) == {[c |-> p[1].c, i |-> p[1].i, w |-> p[1].w, d |-> p[2], ch |-> 0] :
                        p \in {pp \in W \X Range(LiveKinds[l]) : pp[1].k = LiveKey[l]}}
LiveSafe == \A l \in Lives : StreamSafe(lstream[l], LiveItemsOf(l, wrote), GeoBefore)
LiveAckedGetsIt == Quiescent => \A l \in Lives :
                      StreamComplete(lstream[l], LiveItemsOf(l, {x \in wrote : l \in at[<<x.c, x.i>>].lack}))
\* NOT a property of the code (TLC shows a counterexample with two live fences): an event of a write that was
\* completed before the fence was even requested can still be delivered, because processLives distributes a
\* stacked write to the buffers registered when it is popped, not when it was pushed
LiveNothingEarlier == \A l \in Lives : \A x \in Range(lstream[l]) : <<x.c, x.i>> \notin lat[l]

TypeOK == /\ wlock \in {0} \cup Conns /\ nw \in Nat /\ qidx \in Nat /\ clock \in 0..MaxClock
          /\ \A e \in q : e.h \in Hooks /\ e.idx \in 1..qidx
          /\ \A h \in Hooks : inc[h] \in Incs
          /\ \A e \in Eps : ep[e] \in {"up"} \cup FailModes
=============================================================================
