----------------------------- MODULE FollowGen -----------------------------
(* Scenario generator for Follow: every transition of the reachable graph of the     *)
(* intended design is printed with the history of harness-level actions that leads   *)
(* to it (initial follower state, leader writes, faults).                            *)
EXTENDS Follow, Json
Emit == [][hist' # hist => PrintT(<<"TR", ToJson([meta |-> meta', steps |-> hist'])>>)]_vars
=============================================================================
