----------------------------- MODULE NearbyGen -----------------------------
(* History generator for Nearby (model -> code).  The history is hidden     *)
(* from the VIEW, so TLC's breadth-first search visits every dataset (the   *)
(* placement of the movers over the shapes: points, extended objects,       *)
(* strings, absent) once, and the action property Emit prints one shortest  *)
(* history per transition of the reachable graph: every insert, move,       *)
(* overwrite (point <-> extended object <-> string) and delete of every     *)
(* object from every dataset.  The harness executes each history on a real  *)
(* collection, asks NEARBY queries on the dataset reached, and TLC judges   *)
(* the recorded replies with NearbyTrace.                                   *)
EXTENDS Nearby, Json

Emit == [][PrintT(<<"TR", ToJson([h |-> hist'])>>)]_vars
=============================================================================
