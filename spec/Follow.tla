------------------------------ MODULE Follow ------------------------------
(***************************************************************************)
(* Leader/follower replication (follow.go, checksum.go).  The follower     *)
(* connects, compares checksums of its own log with the leader's to find   *)
(* the position from which to resume (followCheckSome), asks the leader    *)
(* for the log from there (AOF pos) and applies the stream; it reports     *)
(* caught-up once its log is at least as long as the leader's was when it  *)
(* connected.                                                              *)
(* Logs are sequences of commands of CmdSz bytes; checksums compare        *)
(* windows of W bytes (W stands for the code's 512 KiB).                    *)
(* Deviation constants, TRUE = the design as coded at the pinned commit:   *)
(*   SmallNoCheck   own log < W: resume from 0 with no reset at all        *)
(*   ZeroNoReset    no common prefix: the file is recreated but the        *)
(*                  dataset in memory and the recorded size stay           *)
(*   IntactShortcut matched prefix ending on a command boundary is         *)
(*                  declared intact even if the own log is longer          *)
(*   StaleCheck = "atread": a replication session tests whether it is     *)
(*                  still the current one (followc) before each read of   *)
(*                  the leader connection instead of per command under    *)
(*                  the lock ("percmd", as coded)                          *)
(*   ShrinkCutsCopying = FALSE: the leader registers a replication         *)
(*                  connection (aofconnM) only AFTER the backlog copy; an  *)
(*                  AOFSHRINK that swaps the files during the copy then    *)
(*                  does not cut it: the follower reads the old, unlinked  *)
(*                  file to its end, reports caught-up and never sees what *)
(*                  the leader logs afterwards (as coded: TRUE, registered *)
(*                  before the copy)                                       *)
(* Re-pointing (a second FOLLOW, to another leader, without a restart):    *)
(* the session of the previous leader may still sit in a read on its idle  *)
(* connection; whatever that leader logs later must not reach the follower.*)
(* C06: CopyWhenCaughtUp, NoEarlyCaughtUp, LogIsLeaderPrefix.               *)
(* The initial follower log is leader-prefix \o foreign* (the checksum      *)
(* probe is sound only if divergence is monotone: once the logs differ     *)
(* every later window differs; adversarially similar logs are out of scope). *)
(***************************************************************************)
EXTENDS Integers, Sequences, FiniteSets, TLC

CONSTANTS CmdSz, W, MaxLeader, MaxFaults, ClearsAtStep,
          SmallNoCheck, ZeroNoReset, IntactShortcut,
          MaxRefollow,     \* how often the follower is re-pointed to the other leader
          StaleCheck,      \* "percmd" (as coded) | "atread"
          ShrinkCutsCopying, \* TRUE (as coded): AOFSHRINK also cuts a follower that is still in its backlog copy
          OLog             \* what the other leader holds initially

\* commands are integers: 1, 2 = set to 1 / 2; 3 = "inc", not idempotent (RENAMENX, NX, append-JSET ...);
\* 4 = foreign data; 100 + v = the single command of a rewritten (shrunk) log that sets the state to v
Cmd == {1, 2, 3}
Fx == 4
\* llog: the log of the leader the follower is configured to follow; olog: the log of the other leader;
\* stale: the session of the previous leader, blocked in a read: next = index in olog of the command it would receive
\* frozen: the old log file a streaming connection keeps reading after a shrink that did not cut it ([on, log])
VARIABLES llog, flog, fmem, faofsz, conn, pos, sent, lsizeAtConnect, caughtUp, faults, hist, meta, olog, stale, refollows, frozen
vars == <<llog, flog, fmem, faofsz, conn, pos, sent, lsizeAtConnect, caughtUp, faults, hist, meta, olog, stale, refollows, frozen>>
re == <<olog, stale, refollows>>
Live == [on |-> FALSE, log |-> <<>>]
Source == IF frozen.on THEN frozen.log ELSE llog          \* what the current stream reads
NoStale == [alive |-> FALSE, next |-> 0]

Apply(m, c) == CASE c = 1 -> 1 [] c = 2 -> 2 [] c = 3 -> m + 10 [] c = Fx -> 7 [] c >= 100 -> c - 100
RECURSIVE Replay(_, _)
Replay(m, s) == IF s = <<>> THEN m ELSE Replay(Apply(m, Head(s)), Tail(s))
Sz(s) == CmdSz * Len(s)
IsPrefix(a, b) == Len(a) <= Len(b) /\ SubSeq(b, 1, Len(a)) = a
Byte(s, j) == <<s[(j \div CmdSz) + 1], j % CmdSz>>
Match(p, n) == /\ p + n <= faofsz /\ p + n <= Sz(flog) /\ p + n <= Sz(llog)
               /\ \A j \in p..(p + n - 1) : Byte(flog, j) = Byte(llog, j)
RECURSIVE Search(_, _, _)
Search(min, max, limit) ==
  IF max < min \/ max + W > limit THEN min
  ELSE IF Match(max, W)
       THEN LET nmin == max + W IN Search(nmin, ((limit - nmin) \div 2) - (W \div 2) + nmin, limit)
       ELSE Search(min, ((max - min) \div 2) - (W \div 2) + min, max)
FullPos == IF Match(0, W) THEN Search(W, faofsz - W, faofsz) ELSE 0
Boundary(p) == p - (p % CmdSz)
Seqs(n) == UNION {[1..k -> Cmd] : k \in 0..n}

Init == /\ llog \in Seqs(MaxLeader)
        /\ \E n \in 0..Len(llog), k \in 0..MaxLeader :
              /\ flog = SubSeq(llog, 1, n) \o [j \in 1..k |-> Fx]
              /\ meta = [linit |-> Len(llog), prefix |-> n, foreign |-> k]
        /\ fmem = Replay(0, flog) /\ faofsz = Sz(flog)
        /\ conn = "down" /\ pos = 0 /\ sent = 0 /\ lsizeAtConnect = 0 /\ caughtUp = FALSE /\ faults = 0
        /\ hist = <<>>
        /\ olog = OLog /\ stale = NoStale /\ refollows = 0 /\ frozen = Live

\* ClearsAtStep (as coded TRUE): every connect cycle starts by clearing the caught-up flag (followStep, under the lock,
\* before the log is checked or reset).  The specification clears it at the instant the session ends (nobody can tell:
\* until the next cycle starts the dataset is what it was when the flag was set).  FALSE: the flag is cleared only when a
\* cycle ends with an error other than a clean close by the leader - after AOFSHRINK on the leader or a cut connection
\* the follower keeps reporting caught-up while it resets and re-copies (NoEarlyCaughtUp refuted)
Cleared == IF ClearsAtStep THEN FALSE ELSE caughtUp
FullReset == /\ flog' = <<>> /\ fmem' = 0 /\ faofsz' = 0
CheckSome ==
  /\ conn = "down"
  /\ lsizeAtConnect' = Sz(llog) /\ caughtUp' = Cleared /\ sent' = 0 /\ conn' = "checked"
  /\ IF faofsz < W
     THEN IF SmallNoCheck THEN pos' = 0 /\ UNCHANGED <<flog, fmem, faofsz>>
          ELSE pos' = 0 /\ FullReset                 \* intended: a short log is not verified, it is discarded
     ELSE LET full == FullPos  b == Boundary(full) IN
          IF full = 0
          THEN /\ pos' = 0
               /\ IF ZeroNoReset THEN flog' = <<>> /\ UNCHANGED <<fmem, faofsz>> ELSE FullReset
          ELSE IF b = full /\ (IntactShortcut \/ full = faofsz)
               THEN pos' = b /\ UNCHANGED <<flog, fmem, faofsz>>
               ELSE /\ pos' = b /\ flog' = SubSeq(flog, 1, b \div CmdSz)
                    /\ fmem' = Replay(0, SubSeq(flog, 1, b \div CmdSz)) /\ faofsz' = b
  /\ frozen' = Live
  /\ UNCHANGED <<llog, faults, hist, meta, re>>
RequestAOF == /\ conn = "checked" /\ pos <= Sz(llog)
              /\ conn' = "streaming" /\ caughtUp' = (pos >= lsizeAtConnect)
              /\ UNCHANGED <<llog, flog, fmem, faofsz, pos, sent, lsizeAtConnect, faults, hist, meta, re, frozen>>
Stream == /\ conn = "streaming"
          /\ LET i == (pos \div CmdSz) + sent + 1 IN
             /\ i <= Len(Source) /\ fmem' = Apply(fmem, Source[i]) /\ flog' = Append(flog, Source[i])
             /\ faofsz' = faofsz + CmdSz /\ sent' = sent + 1
             /\ caughtUp' = (caughtUp \/ faofsz + CmdSz >= lsizeAtConnect)
          /\ UNCHANGED <<llog, conn, pos, lsizeAtConnect, faults, hist, meta, re, frozen>>
\* the assumption under which a checksum PROBE can stand for a comparison (module header): once the follower's log differs
\* from the leader's, every later position differs too.  A leader write that would make the logs agree again behind
\* a difference is outside the model.
Diverged == \E j \in 1..Len(llog) : j <= Len(flog) /\ flog[j] # llog[j]
KeepsDivergenceMonotone(c) == (Diverged /\ Len(llog) < Len(flog)) => c # flog[Len(llog) + 1]
LWrite(c) == /\ Len(llog) < MaxLeader /\ KeepsDivergenceMonotone(c) /\ llog' = Append(llog, c)
             /\ hist' = Append(hist, "lwrite")
             /\ UNCHANGED <<flog, fmem, faofsz, conn, pos, sent, lsizeAtConnect, caughtUp, faults, meta, re, frozen>>
ConnDrop == /\ conn # "down" /\ faults < MaxFaults /\ faults' = faults + 1
            /\ conn' = "down" /\ caughtUp' = Cleared /\ hist' = Append(hist, "drop") /\ frozen' = Live
            /\ UNCHANGED <<llog, flog, fmem, faofsz, pos, sent, lsizeAtConnect, meta, re>>
FRestart == /\ faults < MaxFaults /\ faults' = faults + 1 /\ conn' = "down" /\ caughtUp' = FALSE
            /\ fmem' = Replay(0, flog) /\ faofsz' = Sz(flog) /\ hist' = Append(hist, "frestart")
            /\ stale' = NoStale /\ frozen' = Live   \* a restart ends every session of the process
            /\ UNCHANGED <<llog, flog, pos, sent, lsizeAtConnect, meta, olog, refollows>>
\* AOFSHRINK on the leader: its log becomes an equivalent shorter one; replication connections are cut
\* (mid-copy: the follower is streaming the backlog and has not reached the end of the log yet)
MidCopy == conn = "streaming" /\ ~frozen.on /\ (pos \div CmdSz) + sent < Len(llog)
LShrink == /\ faults < MaxFaults /\ faults' = faults + 1 /\ Len(llog) > 1
           /\ llog' = <<100 + Replay(0, llog)>>
           /\ IF MidCopy /\ ~ShrinkCutsCopying
              THEN /\ frozen' = [on |-> TRUE, log |-> llog] /\ UNCHANGED <<conn, caughtUp>>      \* keeps reading the old file
              ELSE /\ conn' = "down" /\ caughtUp' = Cleared /\ frozen' = Live
           /\ hist' = Append(hist, IF MidCopy THEN "lshrinkmid" ELSE "lshrink")
           /\ UNCHANGED <<flog, fmem, faofsz, pos, sent, lsizeAtConnect, meta, re>>
\* FOLLOW otherhost (cmdFollow: followc + 1, a new session is started; the old one is not told)
Refollow == /\ refollows < MaxRefollow /\ refollows' = refollows + 1
            /\ llog' = olog /\ olog' = llog
            /\ stale' = IF conn = "streaming" THEN [alive |-> TRUE, next |-> (pos \div CmdSz) + sent + 1] ELSE NoStale
            /\ conn' = "down" /\ caughtUp' = FALSE /\ hist' = Append(hist, "refollow") /\ frozen' = Live
            /\ UNCHANGED <<flog, fmem, faofsz, pos, sent, lsizeAtConnect, faults, meta>>
\* the leader that is no longer followed keeps writing
OWrite(c) == /\ refollows > 0 /\ Len(olog) < MaxLeader /\ olog' = Append(olog, c)
             /\ hist' = Append(hist, "owrite")
             /\ UNCHANGED <<llog, flog, fmem, faofsz, conn, pos, sent, lsizeAtConnect, caughtUp, faults, meta, stale, refollows, frozen>>
\* the stale session receives the next command of its (former) leader
StaleDeliver ==
  /\ stale.alive /\ stale.next <= Len(olog)
  /\ stale' = NoStale                                       \* either way it then notices and ends
  /\ IF StaleCheck = "percmd"
     THEN UNCHANGED <<flog, fmem, faofsz>>                   \* followHandleCommand: followc differs -> errNoLongerFollowing
     ELSE /\ fmem' = Apply(fmem, olog[stale.next]) /\ flog' = Append(flog, olog[stale.next])
          /\ faofsz' = faofsz + CmdSz
  /\ UNCHANGED <<llog, conn, pos, sent, lsizeAtConnect, caughtUp, faults, hist, meta, olog, refollows, frozen>>
Next == CheckSome \/ RequestAOF \/ Stream \/ ConnDrop \/ FRestart \/ LShrink \/ Refollow \/ StaleDeliver
        \/ \E c \in Cmd : LWrite(c) \/ OWrite(c)
Spec == Init /\ [][Next]_vars
View == <<llog, flog, fmem, faofsz, conn, pos, sent, lsizeAtConnect, caughtUp, faults, olog, stale, refollows, frozen>>   \* without the history
\* liveness: once faults stop and the leader stops writing, the follower reports caught-up
Fair == WF_vars(CheckSome) /\ WF_vars(RequestAOF) /\ WF_vars(Stream)
FairSpec == Spec /\ Fair
EventuallyCaughtUp == <>[](caughtUp \/ ENABLED (ConnDrop \/ FRestart \/ LShrink \/ Refollow \/ StaleDeliver \/ \E c \in Cmd : LWrite(c) \/ OWrite(c)))

Drained == conn = "streaming" /\ ~frozen.on /\ (pos \div CmdSz) + sent = Len(llog)
\* the stream has nothing more to deliver (whatever it reads): with the leader quiescent this is what the follower stays with
Exhausted == conn = "streaming" /\ (pos \div CmdSz) + sent >= Len(Source)
CopyWhenQuiescent == (caughtUp /\ Exhausted) => fmem = Replay(0, llog)
CopyWhenCaughtUp == (caughtUp /\ Drained) => fmem = Replay(0, llog)
NoEarlyCaughtUp == caughtUp => \E n \in 0..Len(llog) :
                      /\ n * CmdSz >= lsizeAtConnect /\ fmem = Replay(0, SubSeq(llog, 1, n))
LogIsLeaderPrefix == (conn = "streaming" /\ ~frozen.on) => (IsPrefix(flog, llog) /\ faofsz = Sz(flog))
=============================================================================
