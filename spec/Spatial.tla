------------------------------- MODULE Spatial -------------------------------
(***************************************************************************)
(* C02  Spatial search returns exactly the objects satisfying the          *)
(*      geometric predicate.                                               *)
(*                                                                         *)
(* One collection (internal/collection/collection.go): the primary map     *)
(* `objs' (id -> object) and the spatial index `spatial', an R-tree of     *)
(* float32 rectangles.  The R-tree is modelled as what it is for a         *)
(* search: a SET OF ENTRIES [id, box, obj] - `box' is the float32          *)
(* rectangle under which the entry was inserted, `obj' the object the      *)
(* entry points to (the tree stores *object.Object pointers, so a stale    *)
(* entry still answers with the OLD geometry).                             *)
(*                                                                         *)
(* Geometry lives on an integer grid: fine coordinates 0..NX x 0..NY are   *)
(* the float64 coordinates of objects and query areas, the subsets         *)
(* CoarseX / CoarseY are the coordinates that float32 can represent.       *)
(* Down / Up map a fine coordinate to the nearest coarse one below /       *)
(* above: the abstract image of rtreeValueDown / rtreeValueUp; Box rounds  *)
(* a rectangle OUTWARD (rtreeRect).  Objects are points and rectangles     *)
(* (closed sets; a rectangle may be degenerate), strings (not spatial) and *)
(* empty geometries (spatial, never indexed).                              *)
(*                                                                         *)
(* Code anchors                                                            *)
(*   Set / SetFill   ~ Collection.Set / setFill (indexDelete(prev) when    *)
(*                     prev is spatial and not empty, indexInsert(obj))    *)
(*   Del             ~ Collection.Delete                                   *)
(*   Drop / Rename   ~ cmdDROP / cmdRENAME: the tree travels with the      *)
(*                     collection, a dropped key answers with nothing      *)
(*   Cand            ~ geoSearch: entries whose box overlaps the rounded   *)
(*                     rectangle of the query area                         *)
(*   Result          ~ Collection.Within / Intersects: candidates whose    *)
(*                     OWN geometry satisfies the exact predicate          *)
(*   Pred            ~ o.Geo().Within(area) / o.Geo().Intersects(area):    *)
(*                     what `TEST GET key id WITHIN|INTERSECTS area' says  *)
(*   Clip            ~ CLIPBY: the area is replaced by its intersection    *)
(*                     with a rectangle (empty when they are disjoint)     *)
(*   SparseOutcomes  ~ geoSparse: from every sub-rectangle the first       *)
(*                     candidate that matches - some subset of Result      *)
(*                                                                         *)
(* Named deviations (all FALSE / "outward" = the intended design; TLC      *)
(* shows that each of them breaks the property):                           *)
(*   ObjRound, QryRound = "inward"    min rounded up, max rounded down     *)
(*   ObjRound = "nearest"             plain float32(x) conversions         *)
(*   DelRound # ObjRound              removal looks the entry up under a   *)
(*                                    differently rounded box: not found   *)
(*   StaleOnKindChange                setFill forgets indexDelete(prev)    *)
(*                                    when the new object is not spatial   *)
(*   SkipSameBox                      setFill keeps the old entry when the *)
(*                                    rectangle did not change             *)
(***************************************************************************)
EXTENDS Integers, Sequences, FiniteSets, SequencesExt, SpatialStmt, TLC

CONSTANTS
  NIds,                \* ids 1..NIds
  NX, NY,              \* fine coordinates 0..NX, 0..NY
  CoarseX, CoarseY,    \* float32-representable coordinates, subsets of -1..NX+1 / -1..NY+1
  ObjRound,            \* rounding of an object's rectangle on insertion: "outward" | "inward" | "nearest"
  QryRound,            \* rounding of a query rectangle
  DelRound,            \* rounding used to find the entry on removal (intended: the same as ObjRound)
  StaleOnKindChange,   \* deviation
  SkipSameBox,         \* deviation
  WithKeys,            \* generate RENAME / DROP as well
  MaxHist              \* length bound of generated behaviours

Ids == 1..NIds
XS  == 0..NX
YS  == 0..NY

ASSUME CoarseSane ==
  /\ CoarseX \subseteq -1..(NX + 1) /\ CoarseY \subseteq -1..(NY + 1)
  /\ \E c \in CoarseX : c <= 0   /\ \E d \in CoarseX : d >= NX
  /\ \E c \in CoarseY : c <= 0   /\ \E d \in CoarseY : d >= NY

-----------------------------------------------------------------------------
(* Rounding.                                                                *)
Greatest(S) == CHOOSE m \in S : \A x \in S : x <= m
Least(S)    == CHOOSE m \in S : \A x \in S : m <= x
DownT(C, n) == [x \in -1..(n + 1) |-> IF \E c \in C : c <= x THEN Greatest({c \in C : c <= x}) ELSE x]
UpT(C, n)   == [x \in -1..(n + 1) |-> IF \E c \in C : c >= x THEN Least({c \in C : c >= x}) ELSE x]
DownX == DownT(CoarseX, NX)      UpX == UpT(CoarseX, NX)
DownY == DownT(CoarseY, NY)      UpY == UpT(CoarseY, NY)
Near(dn, up, x) == IF x - dn[x] <= up[x] - x THEN dn[x] ELSE up[x]

\* the lemma rtreeRect relies on: the float64 value lies between its two roundings
ASSUME OutwardLemma ==
  /\ \A x \in XS : DownX[x] <= x /\ x <= UpX[x] /\ DownX[x] \in CoarseX /\ UpX[x] \in CoarseX
  /\ \A y \in YS : DownY[y] <= y /\ y <= UpY[y] /\ DownY[y] \in CoarseY /\ UpY[y] \in CoarseY

Lo(mode, dn, up, x) == CASE mode = "outward" -> dn[x] [] mode = "inward" -> up[x] [] mode = "nearest" -> Near(dn, up, x)
Hi(mode, dn, up, x) == CASE mode = "outward" -> up[x] [] mode = "inward" -> dn[x] [] mode = "nearest" -> Near(dn, up, x)

\* rtreeRect under a rounding mode (r is any record with x1, y1, x2, y2)
Box(mode, r) == [x1 |-> Lo(mode, DownX, UpX, r.x1), y1 |-> Lo(mode, DownY, UpY, r.y1),
                 x2 |-> Hi(mode, DownX, UpX, r.x2), y2 |-> Hi(mode, DownY, UpY, r.y2)]
\* the overlap test of the R-tree (closed)
Overlaps(a, b) == a.x1 <= b.x2 /\ b.x1 <= a.x2 /\ a.y1 <= b.y2 /\ b.y1 <= a.y2

-----------------------------------------------------------------------------
(* Objects and areas.                                                       *)
Geo(k, a, b, c, d) == [k |-> k, x1 |-> a, y1 |-> b, x2 |-> c, y2 |-> d]
Points == {Geo("point", x, y, x, y) : x \in XS, y \in YS}
Rects  == {Geo("rect", x[1], y[1], x[2], y[2]) :
             x \in {p \in XS \X XS : p[1] <= p[2]}, y \in {p \in YS \X YS : p[1] <= p[2]}}
StrObj   == Geo("string", 0, 0, 0, 0)
EmptyObj == Geo("empty", 0, 0, 0, 0)
NoObj    == Geo("none", 0, 0, 0, 0)
ObjVals  == Points \cup Rects \cup {StrObj, EmptyObj}

IsSpatial(o) == o.k \in {"point", "rect", "empty"}      \* object.IsSpatial()
Indexed(o)   == o.k \in {"point", "rect"}               \* ... && !Geo().Empty()

\* query areas: every rectangle of the grid, and the empty area (a CLIPBY that cuts everything away)
NoArea  == Geo("none", 0, 0, 0, 0)
AreaSet == {Geo("rect", r.x1, r.y1, r.x2, r.y2) : r \in Rects} \cup {NoArea}
AreaKey(a) == IF a.k = "none" THEN <<-1, 0, 0, 0>> ELSE <<a.x1, a.y1, a.x2, a.y2>>
SeqLess(s, t) == \E j \in 1..4 : (\A m \in 1..(j - 1) : s[m] = t[m]) /\ s[j] < t[j]
AreaSeq == SetToSortSeq(AreaSet, LAMBDA a, b : SeqLess(AreaKey(a), AreaKey(b)))
NAreas  == Len(AreaSeq)
AreaIdx(a) == CHOOSE j \in 1..NAreas : AreaSeq[j] = a

\* CLIPBY: intersection of two areas
Clip(a, c) ==
  IF a.k = "none" \/ c.k = "none" \/ ~Overlaps(a, c) THEN NoArea
  ELSE Geo("rect", IF a.x1 >= c.x1 THEN a.x1 ELSE c.x1, IF a.y1 >= c.y1 THEN a.y1 ELSE c.y1,
                   IF a.x2 <= c.x2 THEN a.x2 ELSE c.x2, IF a.y2 <= c.y2 THEN a.y2 ELSE c.y2)

\* the per-object predicate (exact integer geometry of closed sets); kind is "within" or "intersects"
Pred(kind, o, a) ==
  /\ Indexed(o) /\ a.k # "none"
  /\ IF kind = "within" THEN a.x1 <= o.x1 /\ o.x2 <= a.x2 /\ a.y1 <= o.y1 /\ o.y2 <= a.y2
                        ELSE Overlaps(o, a)

-----------------------------------------------------------------------------
VARIABLES objs,      \* id -> object or NoObj
          spatial,   \* set of entries [id, box, obj]
          at,        \* which of the two keys holds the collection (the other key does not exist)
          hist
vars == <<objs, spatial, at, hist>>

Entry(i, mode, o) == [id |-> i, box |-> Box(mode, o), obj |-> o]

\* c.spatial.Delete(rtreeItem(prev)): the entry is found by its rectangle and its pointer
IndexDelete(sp, i, prev) == IF Indexed(prev) THEN sp \ {Entry(i, DelRound, prev)} ELSE sp
IndexInsert(sp, i, o)    == IF Indexed(o) THEN sp \cup {Entry(i, ObjRound, o)} ELSE sp

\* setFill(prev, obj), spatial part
SetFill(sp, i, prev, o) ==
  IF SkipSameBox /\ prev # NoObj /\ Indexed(prev) /\ Indexed(o) /\ Box(ObjRound, prev) = Box(ObjRound, o)
  THEN sp
  ELSE LET sp1 == IF prev # NoObj /\ IsSpatial(prev) /\ ~(StaleOnKindChange /\ ~IsSpatial(o))
                  THEN IndexDelete(sp, i, prev) ELSE sp
       IN IF IsSpatial(o) THEN IndexInsert(sp1, i, o) ELSE sp1

Present(ob) == {i \in Ids : ob[i] # NoObj}

\* geoSearch + exact predicate on the candidate's own geometry
Cand(sp, a) == IF a.k = "none" THEN sp ELSE {e \in sp : Overlaps(e.box, Box(QryRound, a))}
Result(sp, kind, a) == {e.id : e \in {c \in Cand(sp, a) : Pred(kind, c.obj, a)}}
\* geoSparse reports some of the matches (which ones depends on the walk order of the tree)
SparseOutcomes(sp, kind, a) == SUBSET Result(sp, kind, a)

\* what the property says the answer is
Holds(ob, kind, a) == {i \in Present(ob) : Pred(kind, ob[i], a)}

\* expected replies in a state, for every area: the index path (Result)
ResTable(sp) == [j \in 1..NAreas |-> [w |-> Result(sp, "within", AreaSeq[j]),
                                      i |-> Result(sp, "intersects", AreaSeq[j])]]

Init == /\ objs = [i \in Ids |-> NoObj]
        /\ spatial = {}
        /\ at = 1
        /\ hist = <<>>

Step(op, i, o) == [op |-> op, id |-> i, o |-> o, prev |-> IF i = 0 THEN NoObj ELSE objs[i],
                   at |-> at', n |-> Cardinality(Present(objs'))]

Set(i, o) ==
  /\ objs' = [objs EXCEPT ![i] = o]
  /\ spatial' = SetFill(spatial, i, objs[i], o)
  /\ UNCHANGED at
  /\ hist' = Append(hist, Step("set", i, o))

Del(i) ==
  /\ objs[i] # NoObj
  /\ objs' = [objs EXCEPT ![i] = NoObj]
  /\ spatial' = IF IsSpatial(objs[i]) THEN IndexDelete(spatial, i, objs[i]) ELSE spatial
  /\ UNCHANGED at
  /\ hist' = Append(hist, Step("del", i, NoObj))

Drop ==
  /\ WithKeys /\ Present(objs) # {}
  /\ objs' = [i \in Ids |-> NoObj] /\ spatial' = {}
  /\ UNCHANGED at
  /\ hist' = Append(hist, Step("drop", 0, NoObj))

Rename ==
  /\ WithKeys /\ Present(objs) # {}
  /\ at' = 3 - at
  /\ UNCHANGED <<objs, spatial>>
  /\ hist' = Append(hist, Step("rename", 0, NoObj))

Next == /\ Len(hist) < MaxHist
        /\ \/ \E i \in Ids, o \in ObjVals : Set(i, o)
           \/ \E i \in Ids : Del(i)
           \/ Drop
           \/ Rename

Spec == Init /\ [][Next]_vars
View == <<objs, spatial, at>>

-----------------------------------------------------------------------------
(* Properties.                                                              *)
TypeOK == /\ objs \in [Ids -> ObjVals \cup {NoObj}]
          /\ at \in {1, 2}
          /\ \A e \in spatial : e.id \in Ids /\ e.obj \in ObjVals

\* the index never hides an object that satisfies the predicate: its entry is a candidate
IndexComplete ==
  \A j \in 1..NAreas, kind \in {"within", "intersects"} :
     \A i \in Holds(objs, kind, AreaSeq[j]) :
        \E e \in Cand(spatial, AreaSeq[j]) : e.id = i /\ e.obj = objs[i]

\* the index never invents: whatever a search reports satisfies the predicate NOW
IndexSound ==
  \A j \in 1..NAreas, kind \in {"within", "intersects"} :
     Result(spatial, kind, AreaSeq[j]) \subseteq Holds(objs, kind, AreaSeq[j])

\* every indexable object is indexed once, under its CURRENT box, pointing to the CURRENT object
IndexMatchesObjs ==
  spatial = {Entry(i, ObjRound, objs[i]) : i \in {j \in Present(objs) : Indexed(objs[j])}}

\* C02 itself: for every area, also a CLIPBY'd one, the reply is exactly the predicate's set
SearchExact ==
  \A j \in 1..NAreas, kind \in {"within", "intersects"} :
     Result(spatial, kind, AreaSeq[j]) = Holds(objs, kind, AreaSeq[j])
ClipIsAnArea == \A a, c \in AreaSet : Clip(a, c) \in AreaSet

\* SPARSE only thins
SparseSubset ==
  \A j \in 1..NAreas, kind \in {"within", "intersects"} :
     \A S \in SparseOutcomes(spatial, kind, AreaSeq[j]) : S \subseteq Holds(objs, kind, AreaSeq[j])

\* generated behaviours record the step that was taken (guards the generators)
LastH == hist'[Len(hist')]
HistConsistent == [][/\ Len(hist') = Len(hist) + 1
                     /\ LastH.at = at' /\ LastH.n = Cardinality(Present(objs'))
                     /\ (LastH.op = "set" => objs'[LastH.id] = LastH.o /\ LastH.prev = objs[LastH.id])]_vars
=============================================================================
