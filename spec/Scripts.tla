------------------------------ MODULE Scripts ------------------------------
(***************************************************************************)
(* Scripts (internal/server/scripts.go) on top of the lock discipline:     *)
(*   EVAL / EVALSHA      hold the exclusive lock from before the first     *)
(*                       call until after the last (handleInputCommand);   *)
(*   EVALRO / EVALROSHA  hold the shared lock for the whole script and     *)
(*                       refuse every writing call;                        *)
(*   EVALNA / EVALNASHA  hold no lock; each call takes the lock of its own *)
(*                       class and releases it (luaTile38NonAtomic).       *)
(* A second client issues one read or one write.  C18: no other client's   *)
(* command takes effect between the calls of an EVAL script; none that     *)
(* writes between the calls of an EVALRO script; EVALNA interleaves only   *)
(* between (never inside) its calls; EVALRO never changes data.            *)
(***************************************************************************)
EXTENDS Integers, Sequences, FiniteSets, TLC

CONSTANTS Kind,        \* "eval" | "evalro" | "evalna"
          NCalls,      \* number of calls of the script
          CallWrites,  \* the script's calls are writes (refused under evalro)
          OtherClass,  \* "read" | "write": the class of the other client's command
          RoChecksWrites, \* deviation guard: FALSE = EVALRO forgets to refuse writes
          DispatchBy      \* "command": a call is run as the variant of the command that started the script;
                          \* "script": as the variant named by a global the script can overwrite (EVAL_CMD, as the
                          \*           pinned tree did): an EVALRO script may have its calls run as EVAL's

VARIABLES writer, readers, spc, calls, opc, applied, order
vars == <<writer, readers, spc, calls, opc, applied, order>>
\* spc: "idle" | "running" (between calls) | "incall" | "done"; opc: "idle" | "exec" | "done"
\* order: sequence of "s1", "s2", ..., "o" in the order the steps took effect

S == 1   O == 2   NoOne == 0
HoldsForScript == CASE Kind = "eval" -> "W" [] Kind = "evalro" -> "R" [] OTHER -> "none"

Init == /\ writer = NoOne /\ readers = {} /\ spc = "idle" /\ calls = 0 /\ opc = "idle"
        /\ applied = 0 /\ order = <<>>

CanW(c) == writer = NoOne /\ readers = {}
CanR(c) == writer = NoOne

SBegin == /\ spc = "idle"
          /\ CASE HoldsForScript = "W" -> CanW(S) /\ writer' = S /\ UNCHANGED readers
               [] HoldsForScript = "R" -> CanR(S) /\ readers' = readers \cup {S} /\ UNCHANGED writer
               [] OTHER -> UNCHANGED <<writer, readers>>
          /\ spc' = "running" /\ UNCHANGED <<calls, opc, applied, order>>

\* a call starts: EVALNA takes the lock of the call's class now
SCallBegin == /\ spc = "running" /\ calls < NCalls
              /\ IF Kind = "evalna"
                 THEN IF CallWrites THEN CanW(S) /\ writer' = S /\ UNCHANGED readers
                                    ELSE CanR(S) /\ readers' = readers \cup {S} /\ UNCHANGED writer
                 ELSE UNCHANGED <<writer, readers>>
              /\ spc' = "incall" /\ UNCHANGED <<calls, opc, applied, order>>

SCallEnd == /\ spc = "incall"
            /\ LET refused == Kind = "evalro" /\ CallWrites /\ RoChecksWrites /\ DispatchBy = "command" IN
               /\ applied' = IF CallWrites /\ ~refused THEN applied + 1 ELSE applied
               /\ order' = Append(order, <<"s", calls + 1>>)
               /\ calls' = calls + 1
               \* a refused call raises an error: the script ends
               /\ spc' = IF refused THEN "ending" ELSE "running"
            /\ IF Kind = "evalna" THEN writer' = NoOne /\ readers' = readers \ {S}
                                  ELSE UNCHANGED <<writer, readers>>
            /\ UNCHANGED opc

SEnd == /\ (spc = "running" /\ calls = NCalls) \/ spc = "ending"
        /\ writer' = IF writer = S THEN NoOne ELSE writer
        /\ readers' = readers \ {S}
        /\ spc' = "done" /\ UNCHANGED <<calls, opc, applied, order>>

OExec == /\ opc = "idle"
         /\ IF OtherClass = "write" THEN CanW(O) ELSE CanR(O)
         /\ order' = Append(order, <<"o", 0>>)
         /\ opc' = "done" /\ UNCHANGED <<writer, readers, spc, calls, applied>>

Next == SBegin \/ SCallBegin \/ SCallEnd \/ SEnd \/ OExec
Spec == Init /\ [][Next]_vars

\* positions of the script's calls and of the other command in the effect order
OtherBetweenCalls == \E i, j, k \in 1..Len(order) : i < j /\ j < k /\ order[i][1] = "s" /\ order[j][1] = "o" /\ order[k][1] = "s"
ScriptAtomic   == Kind = "eval" => ~OtherBetweenCalls
RoNoWriteInside == (Kind = "evalro" /\ OtherClass = "write") => ~OtherBetweenCalls
RONeverWrites  == Kind = "evalro" => applied = 0
NeverInsideCall == ~(spc = "incall" /\ ENABLED OExec /\ Kind = "evalna" /\ (CallWrites \/ OtherClass = "write"))

\* what a forced schedule must observe: may the other command take effect while the script is parked
\* between two calls?  (= compatibility of what the script holds there with what the command needs)
MayProceedBetweenCalls ==
  CASE HoldsForScript = "W" -> FALSE
    [] HoldsForScript = "R" -> OtherClass = "read"
    [] OTHER -> TRUE

=============================================================================
