------------------------------ MODULE Shrink ------------------------------
(***************************************************************************)
(* AOFSHRINK (internal/server/aofshrink.go): the log is rewritten from the *)
(* live dataset in batches, each batch under the server lock, the lock     *)
(* released between batches; commands executed meanwhile are also appended *)
(* to `shrinklog`, which is replayed onto the new file in the final step;  *)
(* the files are then swapped by two renames.                              *)
(*   Start, LoadKeys (next MaxKeys collection names >= nextkey),           *)
(*   LoadIds (the collection is looked up BY NAME again; next MaxIds       *)
(*   objects >= nextid are rendered as SET commands), Final1 (append       *)
(*   shrinklog, sync), Rename1 (live -> bak), Rename2 (new -> live),       *)
(*   Reopen; concurrently Write(c) for any command; Kill at any point;     *)
(*   Restart opens `live` (creating it when absent).                       *)
(* C09: ShrunkEquivalent - replaying the new file yields the live dataset  *)
(* including every write acknowledged during the rewrite; CrashRecoverable *)
(* - at every kill point a restart recovers the acknowledged dataset.      *)
(* Deviation RecoverBak = FALSE is the design as coded at the pinned       *)
(* commit (nothing recovers -bak when `live` is missing).                  *)
(* Rounds: after a Kill the process is restarted (Restart) on what the     *)
(* kill left in the directory - including a leftover `-shrink` file - and  *)
(* may write and shrink again.  Start creates the rewrite target with      *)
(* os.Create, i.e. truncated (TruncNew); without the truncation the new    *)
(* rewrite is written OVER the leftover, whose tail survives when the new  *)
(* content is shorter.                                                     *)
(***************************************************************************)
EXTENDS Integers, Sequences, FiniteSets, TLC

CONSTANTS NKeys, NIds, MaxKeys, MaxIds, MaxWrites,
          WriterOps,     \* subset of {"set", "del", "drop", "rename", "append"}
          RecoverBak,    \* start-up restores -bak when the live file is missing
          MaxRounds,     \* process lifetimes (1: no Restart)
          TruncNew,      \* Start truncates a leftover rewrite target (as coded: os.Create)
          SlogCompacts   \* deviation: a SET recorded in shrinklog directly after a SET of the same object REPLACES that
                         \* entry ("the later position overwrites the earlier one anyway").  As coded FALSE: every
                         \* command is appended.  Refuted: SET keeps the fields of the object it replaces and SET XX
                         \* needs the object, so the earlier SET is not redundant

Keys == 1..NKeys
Ids == 1..NIds
Absent == 0

\* round: process lifetime; stale: content of a leftover rewrite target that the current rewrite is written over
VARIABLES mem, live, newf, bak, slog, shrinking, pc, keys, nextkey, keysdone, nextid, idsdone, nw, recovered, round, stale
vars == <<mem, live, newf, bak, slog, shrinking, pc, keys, nextkey, keysdone, nextid, idsdone, nw, recovered, round, stale>>
\* files: a sequence of commands, or NoFile
NoFile == <<[op |-> "absent"]>>

EmptyCol == [i \in Ids |-> Absent]
EmptyMem == [k \in Keys |-> EmptyCol]
Exists(m, k) == \E i \in Ids : m[k][i] # Absent

Apply(m, c) ==
  CASE c.op = "set"    -> [m EXCEPT ![c.k][c.id] = c.v]
    [] c.op = "del"    -> [m EXCEPT ![c.k][c.id] = Absent]
    [] c.op = "drop"   -> [m EXCEPT ![c.k] = EmptyCol]
    [] c.op = "rename" -> IF Exists(m, c.k) THEN [m EXCEPT ![c.k2] = m[c.k], ![c.k] = EmptyCol]
                          ELSE m                   \* key not found: the error is ignored by loadAOF
    \* SET merges: "setf" SET ... FIELD f x <position> (value 3: position and field); "setp" SET <another position>
    \* without the field: the field of the object it replaces is kept (4), none otherwise (5); "setxx" SET ... XX (6,
    \* only when the object exists)
    [] c.op = "setf"   -> [m EXCEPT ![c.k][c.id] = 3]
    [] c.op = "setp"   -> [m EXCEPT ![c.k][c.id] = IF m[c.k][c.id] \in {3, 4} THEN 4 ELSE 5]
    [] c.op = "setxx"  -> IF m[c.k][c.id] # Absent THEN [m EXCEPT ![c.k][c.id] = 6] ELSE m
    [] c.op = "append" -> IF m[c.k][c.id] # Absent THEN [m EXCEPT ![c.k][c.id] = m[c.k][c.id] + 10]
                          ELSE [m EXCEPT ![c.k][c.id] = 10]         \* a non-idempotent write (JSET path "-1")
RECURSIVE Replay(_, _)
Replay(m, s) == IF s = <<>> THEN m ELSE Replay(Apply(m, Head(s)), Tail(s))
FileState(f) == IF f = NoFile THEN EmptyMem ELSE Replay(EmptyMem, f)

\* the initial log: one SET per object (any log with this effect would do)
RECURSIVE Render(_, _)
Render(m, S) == IF S = {} THEN <<>> ELSE
   LET p == CHOOSE q \in S : \A r \in S : q[1] < r[1] \/ (q[1] = r[1] /\ q[2] <= r[2]) IN
   <<[op |-> "set", k |-> p[1], id |-> p[2], v |-> m[p[1]][p[2]]]>> \o Render(m, S \ {p})
Present(m) == {<<k, i>> \in Keys \X Ids : m[k][i] # Absent}

Init == /\ mem \in {m \in [Keys -> [Ids -> {Absent, 1}]] : \A k \in Keys : Exists(m, k)}
        /\ live = Render(mem, Present(mem)) /\ newf = NoFile /\ bak = NoFile
        /\ slog = <<>> /\ shrinking = FALSE /\ pc = "idle" /\ keys = <<>>
        /\ nextkey = 1 /\ keysdone = FALSE /\ nextid = 1 /\ idsdone = FALSE /\ nw = 0 /\ recovered = mem
        /\ round = 1 /\ stale = <<>>

\* what the file holds when `w` was written from offset 0 over a file that held `old`
Overlay(w, old) == IF Len(w) >= Len(old) THEN w ELSE w \o SubSeq(old, Len(w) + 1, Len(old))

Start == /\ pc = "idle" /\ shrinking' = TRUE /\ slog' = <<>> /\ newf' = <<>> /\ pc' = "loadkeys"
         /\ stale' = IF TruncNew \/ newf = NoFile THEN <<>> ELSE newf
         /\ UNCHANGED <<mem, live, bak, keys, nextkey, keysdone, nextid, idsdone, nw, recovered, round>>

RECURSIVE SortedSeq(_)
SortedSeq(S) == IF S = {} THEN <<>> ELSE
                  LET x == CHOOSE y \in S : \A z \in S : y <= z IN <<x>> \o SortedSeq(S \ {x})
ExistingFrom(n) == {k \in Keys : k >= n /\ Exists(mem, k)}

LoadKeys == /\ pc = "loadkeys"
            /\ IF keysdone THEN /\ pc' = "final1"
                                /\ UNCHANGED <<keys, nextkey, keysdone, nextid, idsdone>>
               ELSE LET all == SortedSeq(ExistingFrom(nextkey)) IN
                    IF Len(all) > MaxKeys
                    THEN /\ keys' = SubSeq(all, 1, MaxKeys) /\ nextkey' = all[MaxKeys + 1]
                         /\ keysdone' = FALSE /\ pc' = "loadids" /\ nextid' = 1 /\ idsdone' = FALSE
                    ELSE /\ keys' = all /\ keysdone' = TRUE /\ UNCHANGED nextkey
                         /\ pc' = IF all = <<>> THEN "final1" ELSE "loadids"
                         /\ nextid' = 1 /\ idsdone' = FALSE
            /\ UNCHANGED <<mem, live, newf, bak, slog, shrinking, nw, recovered, round, stale>>

LoadIds == /\ pc = "loadids"
           /\ IF idsdone
              THEN /\ keys' = Tail(keys) /\ pc' = IF Tail(keys) = <<>> THEN "loadkeys" ELSE "loadids"
                   /\ nextid' = 1 /\ idsdone' = FALSE /\ UNCHANGED newf
              ELSE LET k == Head(keys)
                       present == SortedSeq({i \in Ids : i >= nextid /\ mem[k][i] # Absent})
                       take == IF Len(present) > MaxIds THEN SubSeq(present, 1, MaxIds) ELSE present
                   IN /\ newf' = newf \o [j \in 1..Len(take) |->
                                   [op |-> "set", k |-> k, id |-> take[j], v |-> mem[k][take[j]]]]
                      /\ IF Len(present) > MaxIds THEN nextid' = present[MaxIds + 1] /\ idsdone' = FALSE
                         ELSE idsdone' = TRUE /\ UNCHANGED nextid
                      /\ UNCHANGED <<keys, pc>>
           /\ UNCHANGED <<mem, live, bak, slog, shrinking, nextkey, keysdone, nw, recovered, round, stale>>

\* the final critical section, split at the instrumentation points (all under the lock: no Write in between,
\* but a Kill may hit between any two)
Final1 == /\ pc = "final1" /\ newf' = newf \o slog /\ pc' = "rename1"
          /\ UNCHANGED <<mem, live, bak, slog, shrinking, keys, nextkey, keysdone, nextid, idsdone, nw, recovered, round, stale>>
Rename1 == /\ pc = "rename1" /\ bak' = live /\ live' = NoFile /\ pc' = "rename2"
           /\ UNCHANGED <<mem, newf, slog, shrinking, keys, nextkey, keysdone, nextid, idsdone, nw, recovered, round, stale>>
Rename2 == /\ pc = "rename2" /\ live' = Overlay(newf, stale) /\ newf' = NoFile /\ pc' = "reopen" /\ stale' = <<>>
           /\ UNCHANGED <<mem, bak, slog, shrinking, keys, nextkey, keysdone, nextid, idsdone, nw, recovered, round>>
Reopen == /\ pc = "reopen" /\ bak' = NoFile /\ shrinking' = FALSE /\ pc' = "done"
          /\ UNCHANGED <<mem, live, newf, slog, keys, nextkey, keysdone, nextid, idsdone, nw, recovered, round, stale>>

Cmds == {[op |-> "set", k |-> k, id |-> i, v |-> 2] : k \in Keys, i \in Ids}
   \cup {[op |-> "del", k |-> k, id |-> i] : k \in Keys, i \in Ids}
   \cup {[op |-> "drop", k |-> k] : k \in Keys}
   \cup {[op |-> "rename", k |-> p[1], k2 |-> p[2]] : p \in {q \in Keys \X Keys : q[1] # q[2]}}
   \cup {[op |-> "append", k |-> k, id |-> i] : k \in Keys, i \in Ids}
   \cup {[op |-> o, k |-> k, id |-> i] : o \in {"setf", "setp", "setxx"}, k \in Keys, i \in Ids}
IsSet(c) == c.op \in {"set", "setf", "setp", "setxx"}
Updated(m, c) == IF c.op \in {"set", "append", "setf", "setp"} THEN TRUE
                 ELSE IF c.op = "setxx" THEN m[c.k][c.id] # Absent ELSE Apply(m, c) # m
\* what shrinklog holds after recording c
Record(sl, c) == IF SlogCompacts /\ sl # <<>> /\ IsSet(sl[Len(sl)]) /\ IsSet(c)
                    /\ sl[Len(sl)].k = c.k /\ sl[Len(sl)].id = c.id
                 THEN [sl EXCEPT ![Len(sl)] = c] ELSE Append(sl, c)

InLock == pc \in {"rename1", "rename2", "reopen"}      \* the swap holds the server lock
Write(c) == /\ nw < MaxWrites /\ pc \notin {"done", "dead"} /\ (pc = "idle" => round > 1) /\ ~InLock
            /\ c.op \in WriterOps /\ Updated(mem, c)
            /\ mem' = Apply(mem, c)
            /\ live' = Append(live, c)
            /\ slog' = IF shrinking THEN Record(slog, c) ELSE slog
            /\ nw' = nw + 1
            /\ UNCHANGED <<newf, bak, shrinking, pc, keys, nextkey, keysdone, nextid, idsdone, recovered, round, stale>>

\* process killed now: what does a restart recover?
Kill == /\ pc \notin {"idle", "done", "dead"}
        /\ recovered' = IF live # NoFile THEN FileState(live)
                        ELSE IF RecoverBak /\ bak # NoFile THEN FileState(bak) ELSE EmptyMem
        /\ pc' = "dead"
        /\ UNCHANGED <<mem, live, newf, bak, slog, shrinking, keys, nextkey, keysdone, nextid, idsdone, nw, round, stale>>

\* the next process: loads `live` (or the recovered backup), keeps whatever else the kill left in the directory
Restart == /\ pc = "dead" /\ round < MaxRounds /\ round' = round + 1
           /\ live' = IF live # NoFile THEN live ELSE IF RecoverBak /\ bak # NoFile THEN bak ELSE <<>>
           /\ bak' = IF live = NoFile /\ RecoverBak THEN NoFile ELSE bak
           /\ mem' = FileState(live') /\ recovered' = FileState(live')
           /\ pc' = "idle" /\ shrinking' = FALSE /\ slog' = <<>> /\ keys' = <<>>
           /\ nextkey' = 1 /\ keysdone' = FALSE /\ nextid' = 1 /\ idsdone' = FALSE /\ stale' = <<>>
           /\ UNCHANGED <<newf, nw>>

Next == Start \/ LoadKeys \/ LoadIds \/ Final1 \/ Rename1 \/ Rename2 \/ Reopen \/ Kill \/ Restart \/ \E c \in Cmds : Write(c)
Spec == Init /\ [][Next]_vars

ShrunkEquivalent == pc = "done" => FileState(live) = mem
ServesUnchanged  == [][(\A c \in Cmds : ~Write(c)) /\ pc' # "dead" => mem' = mem]_vars
CrashRecoverable == pc = "dead" => recovered = mem
LiveLogAlwaysGood == (live # NoFile) => FileState(live) = mem
=============================================================================
