---------------------------- MODULE NearbyTrace ----------------------------
(***************************************************************************)
(* Judgement of NEARBY replies recorded from the real server.              *)
(*                                                                         *)
(* trace.ndjson holds one line per episode:                                *)
(*   [id |-> identifier given by the harness,                              *)
(*    reset |-> TRUE: the episode starts on a fresh collection (InitAt),   *)
(*              FALSE: it continues the dataset of the previous line,      *)
(*    ev |-> << events >>]                                                 *)
(* An event is  [t |-> "set", o, s, f]  (SET of object o to shape s with   *)
(* FIELD f),  [t |-> "del", o]  or a query record of Nearby!Defects with   *)
(* t = "q" (the pages as the server replied).  The dataset is followed     *)
(* with the Set / Del semantics of Nearby; every query is judged against   *)
(* the statement of C13 (Nearby!Defects) on the dataset at that moment.    *)
(* One event is consumed per step.  A rejected query is printed as         *)
(* <<"REJ", json>> with the reasons and counted; it never blocks: every    *)
(* query gets its own verdict.                                             *)
(***************************************************************************)
EXTENDS Nearby, Json

Trace == ndJsonDeserialize("trace.ndjson")

VARIABLES l,       \* current line
          i,       \* next event of the line
          nq,      \* queries judged so far
          nrej     \* queries rejected so far
tvars == <<at, fv, hist, l, i, nq, nrej>>

TInit == /\ InitState /\ hist = <<>>
         /\ l = 1 /\ i = 1 /\ nq = 0 /\ nrej = 0
         /\ TLCSet(1, 1) /\ TLCSet(2, 0) /\ TLCSet(3, 0)

\* one event per step: the dataset follows Set / Del, a query is judged on the dataset as it is
Event ==
  /\ l <= Len(Trace) /\ i <= Len(Trace[l].ev)
  /\ LET rec == Trace[l]
         e   == rec.ev[i]
         a0  == IF i = 1 /\ rec.reset THEN InitAtT ELSE at
         f0  == IF i = 1 /\ rec.reset THEN InitFT ELSE fv
     IN IF e.t = "set"
        THEN /\ at' = [a0 EXCEPT ![e.o] = e.s] /\ fv' = [f0 EXCEPT ![e.o] = e.f]
             /\ UNCHANGED <<nq, nrej>>
        ELSE IF e.t = "del"
        THEN /\ at' = [a0 EXCEPT ![e.o] = 0] /\ fv' = [f0 EXCEPT ![e.o] = 0]
             /\ UNCHANGED <<nq, nrej>>
        ELSE LET df == Defects(a0, f0, e)
             IN /\ at' = a0 /\ fv' = f0
                /\ nq' = nq + 1
                /\ nrej' = nrej + (IF df = {} THEN 0 ELSE 1)
                \* (no disjunction here: TLC would split the action and evaluate PrintT in both branches)
                /\ IF df = {} THEN TRUE
                   ELSE PrintT(<<"REJ", ToJson([line |-> l, id |-> rec.id, ev |-> i, why |-> df])>>)
                /\ TLCSet(2, nq') /\ TLCSet(3, nrej')
  /\ i' = i + 1
  /\ UNCHANGED <<l, hist>>

NextLine ==
  /\ l <= Len(Trace) /\ i > Len(Trace[l].ev)
  /\ l' = l + 1 /\ i' = 1
  /\ TLCSet(1, l')
  /\ UNCHANGED <<at, fv, hist, nq, nrej>>

TraceSpec == TInit /\ [][Event \/ NextLine]_tvars

\* the whole file was judged (POSTCONDITION, -workers 1); the counts are printed for the check
Consumed == /\ TLCGet(1) = Len(Trace) + 1
            /\ PrintT(<<"SUM", ToJson([lines |-> Len(Trace), queries |-> TLCGet(2), rejected |-> TLCGet(3)])>>)
=============================================================================
