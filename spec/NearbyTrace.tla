---------------------------- MODULE NearbyTrace ----------------------------
(***************************************************************************)
(* Judgement of NEARBY replies recorded from the real server.              *)
(*                                                                         *)
(* trace.ndjson holds one line per episode:                                *)
(*   [id |-> identifier given by the harness,                              *)
(*    reset |-> TRUE: the episode starts on a fresh collection (InitAt),   *)
(*              FALSE: it continues the dataset of the previous line,      *)
(*    ev |-> << events >>]                                                 *)
(* An event is  [t |-> "set", o, s, f]  (SET of object o to shape s with   *)
(* FIELD f),  [t |-> "del", o]  or a query record of Nearby!Defects with   *)
(* t = "q" (the pages as the server replied).  The dataset is followed     *)
(* with the Set / Del semantics of Nearby; every query is judged against   *)
(* the statement of C13 (Nearby!Defects) on the dataset at that moment.    *)
(* A rejected query is printed as <<"REJ", json>> with the reasons and     *)
(* counted; it never blocks: every query gets its own verdict.             *)
(***************************************************************************)
EXTENDS Nearby, Json

Trace == ndJsonDeserialize("trace.ndjson")

VARIABLES l,       \* next line
          nq,      \* queries judged so far
          nrej     \* queries rejected so far
tvars == <<at, fv, hist, l, nq, nrej>>

\* follows the dataset through the events; bad collects [i |-> event index, why |-> defects]
RECURSIVE Fold(_, _, _, _, _)
Fold(ev, i, a, f, bad) ==
  IF i > Len(ev) THEN [a |-> a, f |-> f, bad |-> bad]
  ELSE LET e == ev[i] IN
       IF e.t = "set" THEN Fold(ev, i + 1, [a EXCEPT ![e.o] = e.s], [f EXCEPT ![e.o] = e.f], bad)
       ELSE IF e.t = "del" THEN Fold(ev, i + 1, [a EXCEPT ![e.o] = 0], f, bad)
       ELSE LET df == Defects(a, f, e)
            IN Fold(ev, i + 1, a, f, IF df = {} THEN bad ELSE bad \cup {[i |-> i, why |-> df]})

TInit == /\ InitState /\ hist = <<>>
         /\ l = 1 /\ nq = 0 /\ nrej = 0
         /\ TLCSet(1, 1) /\ TLCSet(2, 0) /\ TLCSet(3, 0)

Consume ==
  /\ l <= Len(Trace)
  /\ LET rec == Trace[l]
         res == IF rec.reset THEN Fold(rec.ev, 1, InitAt, InitF, {}) ELSE Fold(rec.ev, 1, at, fv, {})
         qs  == Cardinality({i \in 1..Len(rec.ev) : rec.ev[i].t = "q"})
     IN /\ \A b \in res.bad :
             PrintT(<<"REJ", ToJson([line |-> l, id |-> rec.id, ev |-> b.i, why |-> b.why])>>)
        /\ at' = res.a /\ fv' = res.f
        /\ nq' = nq + qs
        /\ nrej' = nrej + Cardinality(res.bad)
  /\ l' = l + 1
  /\ UNCHANGED hist
  /\ TLCSet(1, l') /\ TLCSet(2, nq') /\ TLCSet(3, nrej')

TraceSpec == TInit /\ [][Consume]_tvars

\* the whole file was judged (POSTCONDITION, -workers 1); the counts are printed for the check
Consumed == /\ TLCGet(1) = Len(Trace) + 1
            /\ PrintT(<<"SUM", ToJson([lines |-> Len(Trace), queries |-> TLCGet(2), rejected |-> TLCGet(3)])>>)
=============================================================================
