------------------------------ MODULE FenceSim ------------------------------
(* Random behaviours of Fence for `tlc -simulate': one random write per     *)
(* step, built with RandomElement so that more objects and cells cost       *)
(* nothing; each behaviour is printed once, when it has MaxHist steps.      *)
(* TLC checks the properties of Fence along every behaviour it follows.     *)
EXTENDS Fence, Json

VARIABLE done
svars == <<pos, fld, ex, hist, done>>

SimInit == Init /\ done = FALSE

RE(S) == RandomElement(S)
\* the random choices are passed as operator arguments: TLC evaluates an argument once per call
Pick(o, c, v, k, p, w) ==
  IF \E q \in Objs : ex[q] THEN Expire(CHOOSE q \in Objs : ex[q])
  ELSE IF k <= 12 THEN Set(o, c, v, FALSE)
  ELSE IF k = 13 /\ c \in ExCells THEN Set(o, c, v, TRUE)
  ELSE IF k <= 16 /\ pos[o] # 0 THEN Fset(o, w)
  ELSE IF k = 17 THEN Del(o)
  ELSE IF k = 18 /\ PdelPats # {} THEN Pdel(p)
  ELSE IF k = 19 THEN Drop
  ELSE IF k = 20 /\ WithStr THEN SetStr(o)
  ELSE Set(o, c, v, FALSE)
SimStep == /\ Len(hist) < MaxHist
           /\ Pick(RE(Objs), RE(Cells), RE(SetVals), RE(1..20), RE(PdelPats \cup {<<"*">>}), RE(FVals))
           /\ UNCHANGED done
Finish == /\ Len(hist) = MaxHist /\ ~done /\ done' = TRUE
          /\ UNCHANGED vars
          /\ PrintT(<<"TR", ToJson([ids |-> IdSeq, h |-> hist])>>)
SimNext == SimStep \/ Finish
SimSpec == SimInit /\ [][SimNext]_svars
=============================================================================
