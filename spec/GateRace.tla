------------------------------ MODULE GateRace ------------------------------
(***************************************************************************)
(* The mode gates (READONLY, follower) against a concurrent mode switch.   *)
(* handleInputCommand takes the lock of the command's class and tests the  *)
(* gate INSIDE the critical section, so the test and the write are one     *)
(* step with respect to `READONLY yes' (itself a command under the         *)
(* exclusive lock).  Gates.tla decides what each command is answered in a  *)
(* given mode; this module decides that the mode a write is judged by is   *)
(* the mode it is applied in.                                              *)
(*   TestUnderLock = TRUE   as coded                                       *)
(*   TestUnderLock = FALSE  the refusal is decided before queueing for the *)
(*                          lock ("turn writes away without waiting"): a   *)
(*                          write that passed the test while READONLY yes  *)
(*                          was queued ahead of it is applied afterwards - *)
(*                          NoWriteInReadOnly refuted                      *)
(* Processes: a holder (any command that has the lock for a while), the    *)
(* switcher (READONLY yes), writers.                                       *)
(***************************************************************************)
EXTENDS Integers, Sequences, FiniteSets, TLC

CONSTANTS Writers, TestUnderLock

VARIABLES lock,      \* "free" or the process holding the exclusive lock
          readonly,  \* the server's mode
          pc,        \* process -> state
          passed,    \* writers whose refusal test found the server writable
          applied,   \* writers whose write took effect
          order      \* what happened inside critical sections, in lock order
vars == <<lock, readonly, pc, passed, applied, order>>

Procs == Writers \cup {"holder", "switcher"}
Init == /\ lock = "holder" /\ readonly = FALSE /\ passed = {} /\ applied = {} /\ order = <<>>
        /\ pc = [p \in Procs |-> IF p = "holder" THEN "in" ELSE "start"]

Release(p) == lock = p /\ lock' = "free"
HolderDone == /\ pc["holder"] = "in" /\ Release("holder") /\ pc' = [pc EXCEPT !["holder"] = "done"]
              /\ UNCHANGED <<readonly, passed, applied, order>>
Switch == /\ pc["switcher"] = "start" /\ lock = "free"
          /\ readonly' = TRUE /\ pc' = [pc EXCEPT !["switcher"] = "done"]
          /\ order' = Append(order, "readonly-yes")
          /\ UNCHANGED <<lock, passed, applied>>         \* lock taken and released in this step
\* the refusal test before queueing (only when not TestUnderLock)
EarlyTest(w) == /\ ~TestUnderLock /\ pc[w] = "start"
                /\ pc' = [pc EXCEPT ![w] = IF readonly THEN "refused" ELSE "queued"]
                /\ passed' = IF readonly THEN passed ELSE passed \cup {w}
                /\ UNCHANGED <<lock, readonly, applied, order>>
\* the critical section of a write
Write(w) == /\ lock = "free"
            /\ IF TestUnderLock
               THEN /\ pc[w] = "start"
                    /\ IF readonly THEN /\ pc' = [pc EXCEPT ![w] = "refused"] /\ UNCHANGED <<applied, passed>>
                                        /\ order' = Append(order, "refused")
                       ELSE /\ pc' = [pc EXCEPT ![w] = "done"] /\ applied' = applied \cup {w} /\ passed' = passed \cup {w}
                            /\ order' = Append(order, IF readonly THEN "write-in-readonly" ELSE "write")
               ELSE /\ pc[w] = "queued"
                    /\ pc' = [pc EXCEPT ![w] = "done"] /\ applied' = applied \cup {w} /\ UNCHANGED passed
                    /\ order' = Append(order, IF readonly THEN "write-in-readonly" ELSE "write")
            /\ UNCHANGED <<lock, readonly>>
Next == HolderDone \/ Switch \/ \E w \in Writers : EarlyTest(w) \/ Write(w)
Spec == Init /\ [][Next]_vars

\* C15: no write takes effect while the server is read-only
NoWriteInReadOnly == \A i \in 1..Len(order) : order[i] # "write-in-readonly"
=============================================================================
