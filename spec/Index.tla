------------------------------- MODULE Index -------------------------------
(***************************************************************************)
(* Bookkeeping of one collection (internal/collection/collection.go): four *)
(* access paths (objs by id, spatial R-tree, values B-tree, expires        *)
(* B-tree) and four counters (objects, nobjects, points, weight), all       *)
(* maintained INCREMENTALLY by Set/setFill(prev, obj) and Delete(id).       *)
(* The incremental updates are transcribed as the code does them, with the  *)
(* same guards; BookkeepingExact states that after any history they equal   *)
(* what a recomputation from the primary map yields (C19).                  *)
(* Objects are records [kind, ex, np, w]: kind in {"point","geom","empty",  *)
(* "string"}; "empty" is a spatial object with an empty geometry (counted   *)
(* as an object, never in the R-tree); np = number of points, w = weight.   *)
(***************************************************************************)
EXTENDS Integers, FiniteSets, TLC

CONSTANTS Ids, Objs,      \* Objs: the object values that may be stored
          StaleOnKindChange, StaleExpires   \* deviations (TRUE = a broken bookkeeping, for the vacuity guard)

VARIABLES objs,      \* id -> object or NoObj
          spatial, values, expires,   \* sets of <<id, object>> entries
          objects, nobjects, points, weight
vars == <<objs, spatial, values, expires, objects, nobjects, points, weight>>

NoObj == [kind |-> "none", ex |-> FALSE, np |-> 0, w |-> 0]
IsSpatial(o) == o.kind \in {"point", "geom", "empty"}
Indexed(o)   == o.kind \in {"point", "geom"}             \* !Geo().Empty()

Init == /\ objs = [i \in Ids |-> NoObj]
        /\ spatial = {} /\ values = {} /\ expires = {}
        /\ objects = 0 /\ nobjects = 0 /\ points = 0 /\ weight = 0

\* setFill(prev, obj)
SetFill(i, prev, o) ==
  LET hasPrev == prev # NoObj
      sp1 == IF hasPrev /\ IsSpatial(prev) /\ Indexed(prev) /\ ~(StaleOnKindChange /\ prev.kind # o.kind)
             THEN spatial \ {<<i, prev>>} ELSE spatial
      va1 == IF hasPrev /\ ~IsSpatial(prev) THEN values \ {<<i, prev>>} ELSE values
      ex1 == IF hasPrev /\ prev.ex /\ ~(StaleExpires /\ ~o.ex) THEN expires \ {<<i, prev>>} ELSE expires
  IN /\ spatial' = IF IsSpatial(o) /\ Indexed(o) THEN sp1 \cup {<<i, o>>} ELSE sp1
     /\ values'  = IF ~IsSpatial(o) THEN va1 \cup {<<i, o>>} ELSE va1
     /\ expires' = IF o.ex THEN ex1 \cup {<<i, o>>} ELSE ex1
     /\ objects'  = objects  - (IF hasPrev /\ IsSpatial(prev) THEN 1 ELSE 0) + (IF IsSpatial(o) THEN 1 ELSE 0)
     /\ nobjects' = nobjects - (IF hasPrev /\ ~IsSpatial(prev) THEN 1 ELSE 0) + (IF ~IsSpatial(o) THEN 1 ELSE 0)
     /\ points' = points - (IF hasPrev THEN prev.np ELSE 0) + o.np
     /\ weight' = weight - (IF hasPrev THEN prev.w ELSE 0) + o.w

Set(i, o) == /\ objs' = [objs EXCEPT ![i] = o] /\ SetFill(i, objs[i], o)

Delete(i) == LET prev == objs[i] IN
  /\ prev # NoObj
  /\ objs' = [objs EXCEPT ![i] = NoObj]
  /\ spatial' = IF IsSpatial(prev) /\ Indexed(prev) THEN spatial \ {<<i, prev>>} ELSE spatial
  /\ values'  = IF ~IsSpatial(prev) THEN values \ {<<i, prev>>} ELSE values
  /\ expires' = IF prev.ex THEN expires \ {<<i, prev>>} ELSE expires
  /\ objects'  = objects - (IF IsSpatial(prev) THEN 1 ELSE 0)
  /\ nobjects' = nobjects - (IF ~IsSpatial(prev) THEN 1 ELSE 0)
  /\ points' = points - prev.np /\ weight' = weight - prev.w

Next == \/ \E i \in Ids, o \in Objs : Set(i, o)
        \/ \E i \in Ids : Delete(i)
Spec == Init /\ [][Next]_vars

Present == {i \in Ids : objs[i] # NoObj}
RECURSIVE SumNp(_)
SumNp(S) == IF S = {} THEN 0 ELSE LET x == CHOOSE y \in S : TRUE IN objs[x].np + SumNp(S \ {x})
RECURSIVE SumW(_)
SumW(S) == IF S = {} THEN 0 ELSE LET x == CHOOSE y \in S : TRUE IN objs[x].w + SumW(S \ {x})
BookkeepingExact ==
  /\ spatial = {<<i, objs[i]>> : i \in {j \in Present : Indexed(objs[j])}}
  /\ values  = {<<i, objs[i]>> : i \in {j \in Present : ~IsSpatial(objs[j])}}
  /\ expires = {<<i, objs[i]>> : i \in {j \in Present : objs[j].ex}}
  /\ objects  = Cardinality({i \in Present : IsSpatial(objs[i])})
  /\ nobjects = Cardinality({i \in Present : ~IsSpatial(objs[i])})
  /\ points = SumNp(Present)
  /\ weight = SumW(Present)
=============================================================================
