------------------------------ MODULE Keyspace ------------------------------
(***************************************************************************)
(* Sequential model of the tile38 keyspace: a plain map                    *)
(*     collection -> id -> (object, fields, has-deadline)                  *)
(* plus the registry of hooks/channels (needed by RENAME and FLUSHDB).     *)
(*                                                                         *)
(* Apply(st, c) is the single source of truth for the effect of a command: *)
(* it yields the next state, the abstract result, whether the command must *)
(* be logged (commandDetails.updated in the code) and the two renderings   *)
(* of the result (RESP and JSON output modes).  Every other module (AOF,   *)
(* Follow, Shrink, Locking, Scripts, Expire) obtains command effects here. *)
(*                                                                         *)
(* All tokens are strings with a category prefix ("k:", "i:", "g:", "n:",  *)
(* "v:", "p:"); the harness owns the table token -> concrete argument.     *)
(* TLC cannot order strings, so every ordered domain is a sequence and     *)
(* order is position.                                                      *)
(***************************************************************************)
EXTENDS Integers, Sequences, FiniteSets, TLC

CONSTANTS
  KeySeq,      \* keys in ascending byte order of their concrete strings
  IdSeq,       \* ids in ascending byte order
  GeoSet,      \* geometry / string tokens ("g:...")
  FNameSeq,    \* field names in ascending order
  FValSet,     \* field value tokens ("v:...") ; "v:0" is the only zero
  PatSet,      \* glob pattern tokens usable for ids ("p:...")
  HookSeq      \* hook / channel names in ascending order

Keys   == {KeySeq[i] : i \in 1..Len(KeySeq)}
Ids    == {IdSeq[i] : i \in 1..Len(IdSeq)}
FNames == {FNameSeq[i] : i \in 1..Len(FNameSeq)}
HNames == {HookSeq[i] : i \in 1..Len(HookSeq)}

Pos(seq, x) == CHOOSE i \in 1..Len(seq) : seq[i] = x

-----------------------------------------------------------------------------
(* Field values.  Transcribed from field.ValueOf / Value.LessCase / IsZero. *)
(* rank: Null < False < Number < String < True < JSON; ord orders values of *)
(* one kind (case-insensitive for strings); nan compares equal to every     *)
(* number (neither Less).                                                   *)
FVal ==
  [ x \in {"v:0", "v:0.0", "v:1", "v:1.0", "v:2", "v:-3", "v:nan", "v:inf",
           "v:abc", "v:ABC", "v:abd", "v:true", "v:false", "v:null", "v:json",
           "v:007", "v: 5 ", "v:5"} |->
    CASE x = "v:0"     -> [rank |-> 2, ord |-> 0,   nan |-> FALSE]
      [] x = "v:0.0"   -> [rank |-> 2, ord |-> 0,   nan |-> FALSE]
      [] x = "v:1"     -> [rank |-> 2, ord |-> 10,  nan |-> FALSE]
      [] x = "v:1.0"   -> [rank |-> 2, ord |-> 10,  nan |-> FALSE]
      [] x = "v:2"     -> [rank |-> 2, ord |-> 20,  nan |-> FALSE]
      [] x = "v: 5 "   -> [rank |-> 2, ord |-> 50,  nan |-> FALSE]
      [] x = "v:5"     -> [rank |-> 2, ord |-> 50,  nan |-> FALSE]
      [] x = "v:-3"    -> [rank |-> 2, ord |-> -30, nan |-> FALSE]
      [] x = "v:inf"   -> [rank |-> 2, ord |-> 999, nan |-> FALSE]
      [] x = "v:nan"   -> [rank |-> 2, ord |-> 0,   nan |-> TRUE]
      [] x = "v:007"   -> [rank |-> 3, ord |-> 0,   nan |-> FALSE]   \* not a JSON number: a string
      [] x = "v:abc"   -> [rank |-> 3, ord |-> 1,   nan |-> FALSE]
      [] x = "v:ABC"   -> [rank |-> 3, ord |-> 1,   nan |-> FALSE]
      [] x = "v:abd"   -> [rank |-> 3, ord |-> 2,   nan |-> FALSE]
      [] x = "v:null"  -> [rank |-> 0, ord |-> 0,   nan |-> FALSE]
      [] x = "v:false" -> [rank |-> 1, ord |-> 0,   nan |-> FALSE]
      [] x = "v:true"  -> [rank |-> 4, ord |-> 0,   nan |-> FALSE]
      [] x = "v:json"  -> [rank |-> 5, ord |-> 0,   nan |-> FALSE] ]

FLess(a, b) == LET x == FVal[a]  y == FVal[b] IN
   \/ x.rank < y.rank
   \/ x.rank = y.rank /\ ~x.nan /\ ~y.nan /\ x.ord < y.ord
FEq(a, b)   == ~FLess(a, b) /\ ~FLess(b, a)
FZero(a)    == a = "v:0"            \* "v:0.0" and "v:-0" are stored, only "0" is zero
\* what is stored / read back for a written token: the trimmed text
FStored(a)  == IF a = "v: 5 " THEN "v:5" ELSE a
FValStored  == {FStored(a) : a \in FValSet} \cup {"v:0"}

-----------------------------------------------------------------------------
(* Geometry tokens: spatial kinds and string kinds.                         *)
IsString(g) == g \in {"g:S1", "g:S2", "g:SJ", "g:DOC"}      \* SET ... STRING value / JSET documents
IsSpatial(g) == ~IsString(g)

-----------------------------------------------------------------------------
(* Pattern tokens: "p:*" matches everything, "p:=x" exactly the id/key/name *)
(* token x (without category), "p:<n" the first n elements of the ordered   *)
(* domain (a literal prefix pattern in the concrete table).                 *)
PatMatch(p, seq, x) ==
  CASE p = "p:*"  -> TRUE
    [] p = "p:1*" -> Pos(seq, x) = 1          \* concrete: a prefix only the first element has
    [] p = "p:=1" -> Pos(seq, x) = 1          \* concrete: the first element, literally
    [] p = "p:=2" -> Len(seq) >= 2 /\ Pos(seq, x) = 2
    [] p = "p:none" -> FALSE                  \* concrete: a literal that matches nothing
    [] OTHER -> FALSE

-----------------------------------------------------------------------------
(* State.                                                                   *)
NoObj   == [g |-> "none", f |-> [n \in FNames |-> "v:0"], ex |-> FALSE, d |-> <<>>]
\* "g:DOC" is a string object holding a JSON document; d is the document as the sequence of its
\* <<member, value>> pairs in insertion order (sjson keeps positions, appends new members)
NoHook  == [key |-> "none", chan |-> FALSE]
ZeroF   == [n \in FNames |-> "v:0"]

EmptyState == [cols  |-> [k \in Keys |-> [i \in Ids |-> NoObj]],
               hooks |-> [h \in HNames |-> NoHook]]

Present(st, k, i) == st.cols[k][i].g # "none"
ColExists(st, k)  == \E i \in Ids : Present(st, k, i)
HookOn(st, k)     == \E h \in HNames : st.hooks[h].key = k /\ ~st.hooks[h].chan
ChanOn(st, k)     == \E h \in HNames : st.hooks[h].key = k /\ st.hooks[h].chan

Rev(s) == [i \in 1..Len(s) |-> s[Len(s) + 1 - i]]

ExistingKeys(st) == SelectSeq(KeySeq, LAMBDA k : ColExists(st, k))
IdsOf(st, k)     == SelectSeq(IdSeq, LAMBDA i : Present(st, k, i))
NonZeroNames(o)  == SelectSeq(FNameSeq, LAMBDA n : ~FZero(o.f[n]))

\* field.List.Set: zero deletes; a value Equal (under the value order) to the stored one
\* leaves the stored text untouched; otherwise the trimmed text is stored
SetOne(f, n, v) == IF FZero(v) THEN [f EXCEPT ![n] = "v:0"]
                   ELSE IF f[n] # "v:0" /\ FEq(f[n], v) THEN f
                   ELSE [f EXCEPT ![n] = FStored(v)]
\* merge field updates (a sequence of <<name, value>>) into a field map
RECURSIVE MergeF(_, _)
MergeF(f, fu) == IF fu = <<>> THEN f
                 ELSE MergeF(SetOne(f, fu[1][1], fu[1][2]), Tail(fu))

-----------------------------------------------------------------------------
(* Abstract results and their two renderings.                               *)
(* RESP rendering: [t |-> "ok"|"nil"|"int"|"err"|"str"|"sstr"|"arr", ...]   *)
(* JSON rendering: a record with ok and the payload members.                *)
RInt(n)  == [t |-> "int", n |-> n]
RNil     == [t |-> "nil"]
ROk      == [t |-> "ok"]
RErr(e)  == [t |-> "err", e |-> e]
RStr(s)  == [t |-> "str", s |-> s]           \* bulk string (token or literal)
RSStr(s) == [t |-> "sstr", s |-> s]          \* simple string
RArr(a)  == [t |-> "arr", a |-> a]
JOk      == [ok |-> TRUE]
JErr(e)  == [ok |-> FALSE, err |-> e]

\* fields of an object as RESP flat array <<name, value, name, value ...>> (non-zero only)
RECURSIVE FlatFields(_, _)
FlatFields(o, names) == IF names = <<>> THEN <<>>
   ELSE <<RStr(Head(names)), RStr(o.f[Head(names)])>> \o FlatFields(o, Tail(names))
FieldsFn(o) == [n \in {x \in FNames : ~FZero(o.f[x])} |-> o.f[n]]

GeoR(o) == IF o.g = "g:DOC" THEN [t |-> "doc", d |-> o.d] ELSE RStr(o.g)
GeoJ(o) == IF o.g = "g:DOC" THEN [doc |-> o.d] ELSE o.g
ObjResp(o, wf) ==
  IF wf THEN (IF NonZeroNames(o) = <<>> THEN RArr(<<GeoR(o)>>)
              ELSE RArr(<<GeoR(o), RArr(FlatFields(o, NonZeroNames(o)))>>))
        ELSE GeoR(o)
ObjJson(o, wf) ==
  IF wf /\ NonZeroNames(o) # <<>>
  THEN [ok |-> TRUE, object |-> GeoJ(o), fields |-> FieldsFn(o)]
  ELSE [ok |-> TRUE, object |-> GeoJ(o)]

Result(st, rr, rj, upd) == [st |-> st, rr |-> rr, rj |-> rj, upd |-> upd]
Fail(st, e)             == Result(st, RErr(e), JErr(e), FALSE)

-----------------------------------------------------------------------------
(* Commands.  One CASE arm per handler of crud.go / keys.go / scan.go.      *)

SetObj(st, k, i, o) == [st EXCEPT !.cols[k][i] = o]
DelObj(st, k, i)    == [st EXCEPT !.cols[k][i] = NoObj]

\* SET key id [FIELD n v]* [EX s] [NX|XX] <object>
ApplySet(st, c) ==
  LET old == st.cols[c.k][c.id]
      has == Present(st, c.k, c.id)
      newf == MergeF(IF has THEN old.f ELSE ZeroF, c.fu)     \* merged into the OLD fields
      obj == [g |-> c.g, f |-> newf, ex |-> c.ex, d |-> <<>>]  \* deadline replaced, not kept
  IN IF (c.cond = "xx" /\ ~has) \/ (c.cond = "nx" /\ has)
     THEN Result(st, RNil, JErr(IF c.cond = "nx" THEN "id already exists" ELSE "id not found"), FALSE)
     ELSE Result(SetObj(st, c.k, c.id, obj), ROk, JOk, TRUE)

\* FSET key id [XX] n v [n v]*
RECURSIVE FsetCount(_, _)
FsetCount(f, fu) == IF fu = <<>> THEN 0
   ELSE (IF FEq(f[fu[1][1]], fu[1][2]) THEN 0 ELSE 1)
        + FsetCount(IF FEq(f[fu[1][1]], fu[1][2]) THEN f ELSE [f EXCEPT ![fu[1][1]] = FStored(fu[1][2])], Tail(fu))
RECURSIVE FsetMerge(_, _)
FsetMerge(f, fu) == IF fu = <<>> THEN f
   ELSE FsetMerge(IF FEq(f[fu[1][1]], fu[1][2]) THEN f ELSE [f EXCEPT ![fu[1][1]] = FStored(fu[1][2])], Tail(fu))
ApplyFset(st, c) ==
  IF ~ColExists(st, c.k) THEN Fail(st, "key not found")
  ELSE IF ~Present(st, c.k, c.id)
       THEN (IF c.xx THEN Result(st, RInt(0), JOk, FALSE) ELSE Fail(st, "id not found"))
       ELSE LET old == st.cols[c.k][c.id]
                n == FsetCount(old.f, c.fu)
            IN Result(SetObj(st, c.k, c.id, [old EXCEPT !.f = FsetMerge(old.f, c.fu)]),
                      RInt(n), JOk, n > 0)

ApplyDel(st, c) ==
  IF Present(st, c.k, c.id) THEN Result(DelObj(st, c.k, c.id), RInt(1), JOk, TRUE)
  ELSE IF c.e404 THEN Fail(st, IF ColExists(st, c.k) THEN "id not found" ELSE "key not found")
  ELSE Result(st, RInt(0), JOk, FALSE)

ApplyPdel(st, c) ==
  LET victims == {i \in Ids : Present(st, c.k, i) /\ PatMatch(c.p, IdSeq, i)}
  IN Result([st EXCEPT !.cols[c.k] = [i \in Ids |-> IF i \in victims THEN NoObj ELSE st.cols[c.k][i]]],
            RInt(Cardinality(victims)), JOk, victims # {})

ApplyDrop(st, c) ==
  IF ColExists(st, c.k)
  THEN Result([st EXCEPT !.cols[c.k] = [i \in Ids |-> NoObj]], RInt(1), JOk, TRUE)
  ELSE Result(st, RInt(0), JOk, FALSE)

ApplyRename(st, c) ==
  IF ~ColExists(st, c.k) THEN Fail(st, "key not found")
  ELSE IF HookOn(st, c.k) \/ HookOn(st, c.k2) THEN Fail(st, "key has hooks set")
  ELSE IF ChanOn(st, c.k) \/ ChanOn(st, c.k2) THEN Fail(st, "key has channels set")
  ELSE IF c.nx /\ ColExists(st, c.k2) THEN Result(st, RInt(0), JOk, FALSE)   \* includes k = k2
  ELSE IF c.k = c.k2 THEN Result(st, ROk, JOk, TRUE)       \* deleted and re-inserted: logged, no change
  ELSE Result([st EXCEPT !.cols[c.k2] = st.cols[c.k], !.cols[c.k] = [i \in Ids |-> NoObj]],
              IF c.nx THEN RInt(1) ELSE ROk, JOk, TRUE)

ApplyFlushdb(st, c) == Result(EmptyState, ROk, JOk, TRUE)

ApplyExpire(st, c) ==
  IF Present(st, c.k, c.id)
  THEN Result([st EXCEPT !.cols[c.k][c.id].ex = TRUE], RInt(1), JOk, TRUE)
  ELSE Result(st, RInt(0), JErr(IF ColExists(st, c.k) THEN "id not found" ELSE "key not found"), FALSE)

\* EXPIRE key id 0 followed by the background sweeper: the object disappears and the sweeper logs
\* a DEL (expiry is applied as a logged delete); the reply is that of EXPIRE
ApplyExpireNow(st, c) ==
  IF Present(st, c.k, c.id) THEN Result(DelObj(st, c.k, c.id), RInt(1), JOk, TRUE)
  ELSE Result(st, RInt(0), JErr(IF ColExists(st, c.k) THEN "id not found" ELSE "key not found"), FALSE)

ApplyPersist(st, c) ==
  IF ~Present(st, c.k, c.id)
  THEN Result(st, RInt(0), JErr(IF ColExists(st, c.k) THEN "id not found" ELSE "key not found"), FALSE)
  ELSE IF st.cols[c.k][c.id].ex
       THEN Result([st EXCEPT !.cols[c.k][c.id].ex = FALSE], RInt(1), JOk, TRUE)
       ELSE Result(st, RInt(0), JOk, FALSE)

\* reads ------------------------------------------------------------------
ApplyTtl(st, c) ==
  IF ~Present(st, c.k, c.id)
  THEN Result(st, RInt(-2), JErr(IF ColExists(st, c.k) THEN "id not found" ELSE "key not found"), FALSE)
  ELSE IF st.cols[c.k][c.id].ex
       THEN Result(st, [t |-> "ttlpos"], [ok |-> TRUE, ttl |-> "pos"], FALSE)   \* a non-negative number
       ELSE Result(st, RInt(-1), [ok |-> TRUE, ttl |-> -1], FALSE)

ApplyGet(st, c) ==
  IF ~Present(st, c.k, c.id)
  THEN Result(st, RNil, JErr(IF ColExists(st, c.k) THEN "id not found" ELSE "key not found"), FALSE)
  ELSE Result(st, ObjResp(st.cols[c.k][c.id], c.wf), ObjJson(st.cols[c.k][c.id], c.wf), FALSE)

ApplyExists(st, c) ==
  IF ~ColExists(st, c.k) THEN Fail(st, "key not found")
  ELSE Result(st, RInt(IF Present(st, c.k, c.id) THEN 1 ELSE 0),
              [ok |-> TRUE, exists |-> Present(st, c.k, c.id)], FALSE)

ApplyFexists(st, c) ==
  IF ~ColExists(st, c.k) THEN Fail(st, "key not found")
  ELSE IF ~Present(st, c.k, c.id) THEN Fail(st, "id not found")
  ELSE LET e == ~FZero(st.cols[c.k][c.id].f[c.n])
       IN Result(st, RInt(IF e THEN 1 ELSE 0), [ok |-> TRUE, exists |-> e], FALSE)

ApplyFget(st, c) ==
  IF ~ColExists(st, c.k) THEN Fail(st, "key not found")
  ELSE IF ~Present(st, c.k, c.id) THEN Fail(st, "id not found")
  ELSE LET v == st.cols[c.k][c.id].f[c.n]
       IN Result(st, RStr(v), [ok |-> TRUE, value |-> v], FALSE)

ApplyType(st, c) ==
  IF ColExists(st, c.k) THEN Result(st, RSStr("hash"), [ok |-> TRUE, type |-> "hash"], FALSE)
  ELSE Result(st, RSStr("none"), JErr("key not found"), FALSE)

ApplyKeys(st, c) ==
  LET ks == SelectSeq(ExistingKeys(st), LAMBDA k : PatMatch(c.p, KeySeq, k))
  IN Result(st, RArr([j \in 1..Len(ks) |-> RStr(ks[j])]), [ok |-> TRUE, keys |-> ks], FALSE)

\* SCAN key [MATCH p] [ASC|DESC] [LIMIT n] IDS|COUNT   (from cursor 0; paging is module Cursor, C11)
\* a non-zero next cursor is abstracted to "pos" (its value depends on the range shortcut)
Min(a, b) == IF a < b THEN a ELSE b
ApplyScan(st, c) ==
  LET all   == IF c.desc THEN Rev(IdsOf(st, c.k)) ELSE IdsOf(st, c.k)
      keep  == SelectSeq(all, LAMBDA i : PatMatch(c.p, IdSeq, i))
      lim   == IF c.lim = 0 THEN 100 ELSE c.lim
      items == IF Len(keep) > lim THEN SubSeq(keep, 1, lim) ELSE keep
      hit   == Len(keep) >= lim
  IN IF c.out = "count"
     THEN (IF c.p = "p:*"                                      \* counter shortcut: LIMIT ignored
           THEN LET n == Len(all)
                IN Result(st, RInt(n), [ok |-> TRUE, count |-> n, cursor |-> 0], FALSE)
           ELSE LET n == IF c.lim = 0 THEN Len(keep) ELSE Min(Len(keep), c.lim)
                IN Result(st, RInt(n), [ok |-> TRUE, count |-> n, cursor |-> 0], FALSE))
     ELSE Result(st, RArr(<<IF hit THEN RStr("pos") ELSE RInt(0), RArr([j \in 1..Len(items) |-> RStr(items[j])])>>),
                 [ok |-> TRUE, ids |-> items, count |-> Len(items), cursor |-> IF hit THEN "pos" ELSE 0], FALSE)


\* JSON documents ----------------------------------------------------------
\* JSET key id member value / JDEL key id member / JGET key id [member]; modelled for targets that are
\* missing or hold a document (CanJson); other targets are outside the model and never generated.
CanJson(st, c) == ~Present(st, c.k, c.id) \/ st.cols[c.k][c.id].g = "g:DOC"
DocHas(d, m)   == \E j \in 1..Len(d) : d[j][1] = m
DocIdx(d, m)   == CHOOSE j \in 1..Len(d) : d[j][1] = m
DocSet(d, m, v) == IF DocHas(d, m) THEN [d EXCEPT ![DocIdx(d, m)] = <<m, v>>] ELSE Append(d, <<m, v>>)
DocDel(d, m)   == SelectSeq(d, LAMBDA p : p[1] # m)
ApplyJset(st, c) ==      \* always logged; keeps the fields, drops the deadline (as coded)
  LET old == st.cols[c.k][c.id]
      has == Present(st, c.k, c.id)
      obj == [g |-> "g:DOC", f |-> IF has THEN old.f ELSE ZeroF, ex |-> FALSE,
              d |-> DocSet(IF has THEN old.d ELSE <<>>, c.m, c.v)]
  IN Result(SetObj(st, c.k, c.id, obj), ROk, JOk, TRUE)
ApplyJdel(st, c) ==
  IF ~ColExists(st, c.k) THEN Result(st, RInt(0), JErr("key not found"), FALSE)
  ELSE IF ~Present(st, c.k, c.id) \/ ~DocHas(st.cols[c.k][c.id].d, c.m)
       THEN Result(st, RInt(0), JErr("path not found"), FALSE)
       ELSE LET old == st.cols[c.k][c.id]
            IN Result(SetObj(st, c.k, c.id, [old EXCEPT !.d = DocDel(old.d, c.m), !.ex = FALSE]),
                      RInt(1), JOk, TRUE)
ApplyJget(st, c) ==
  IF ~Present(st, c.k, c.id)
  THEN Result(st, RNil, JErr(IF ColExists(st, c.k) THEN "id not found" ELSE "key not found"), FALSE)
  ELSE LET d == st.cols[c.k][c.id].d IN
       IF c.m = "whole" THEN Result(st, [t |-> "doc", d |-> d], [ok |-> TRUE, value |-> [docstr |-> d]], FALSE)
       ELSE IF DocHas(d, c.m)
            THEN Result(st, RStr(d[DocIdx(d, c.m)][2]), [ok |-> TRUE, value |-> [jstr |-> d[DocIdx(d, c.m)][2]]], FALSE)
            ELSE Result(st, RNil, JOk, FALSE)

\* hooks and channels ------------------------------------------------------
ApplySethook(st, c) ==          \* SETHOOK name url ... / SETCHAN name ...
  LET cur == st.hooks[c.h]
      new == [key |-> c.k, chan |-> c.chan]
  IN IF cur.key # "none" /\ cur.chan # c.chan
     THEN Fail(st, "hooks and channels cannot share the same name")
     ELSE IF cur = new THEN Result(st, RInt(0), JOk, FALSE)
     ELSE Result([st EXCEPT !.hooks[c.h] = new], RInt(1), JOk, TRUE)

ApplyDelhook(st, c) ==
  IF st.hooks[c.h].key # "none" /\ st.hooks[c.h].chan = c.chan
  THEN Result([st EXCEPT !.hooks[c.h] = NoHook], RInt(1), JOk, TRUE)
  ELSE Result(st, RInt(0), JOk, FALSE)

ApplyPdelhook(st, c) ==
  LET victims == {h \in HNames : st.hooks[h].key # "none" /\ st.hooks[h].chan = c.chan
                                 /\ PatMatch(c.p, HookSeq, h)}
  IN Result([st EXCEPT !.hooks = [h \in HNames |-> IF h \in victims THEN NoHook ELSE st.hooks[h]]],
            RInt(Cardinality(victims)), JOk, victims # {})

ApplyHooks(st, c) ==            \* HOOKS pattern / CHANS pattern : names only are compared
  LET hs == SelectSeq(HookSeq, LAMBDA h : st.hooks[h].key # "none" /\ st.hooks[h].chan = c.chan
                                           /\ PatMatch(c.p, HookSeq, h))
  IN Result(st, [t |-> "hooknames", a |-> hs], [ok |-> TRUE, hooknames |-> hs], FALSE)

Apply(st, c) ==
  CASE c.op = "set"      -> ApplySet(st, c)
    [] c.op = "fset"     -> ApplyFset(st, c)
    [] c.op = "del"      -> ApplyDel(st, c)
    [] c.op = "pdel"     -> ApplyPdel(st, c)
    [] c.op = "drop"     -> ApplyDrop(st, c)
    [] c.op = "rename"   -> ApplyRename(st, c)
    [] c.op = "flushdb"  -> ApplyFlushdb(st, c)
    [] c.op = "expire"   -> ApplyExpire(st, c)
    [] c.op = "persist"  -> ApplyPersist(st, c)
    [] c.op = "expirenow" -> ApplyExpireNow(st, c)
    [] c.op = "ttl"      -> ApplyTtl(st, c)
    [] c.op = "get"      -> ApplyGet(st, c)
    [] c.op = "exists"   -> ApplyExists(st, c)
    [] c.op = "fexists"  -> ApplyFexists(st, c)
    [] c.op = "fget"     -> ApplyFget(st, c)
    [] c.op = "type"     -> ApplyType(st, c)
    [] c.op = "keys"     -> ApplyKeys(st, c)
    [] c.op = "scan"     -> ApplyScan(st, c)
    [] c.op = "jset"     -> ApplyJset(st, c)
    [] c.op = "jdel"     -> ApplyJdel(st, c)
    [] c.op = "jget"     -> ApplyJget(st, c)
    [] c.op = "sethook"  -> ApplySethook(st, c)
    [] c.op = "delhook"  -> ApplyDelhook(st, c)
    [] c.op = "pdelhook" -> ApplyPdelhook(st, c)
    [] c.op = "hooks"    -> ApplyHooks(st, c)

IsRead(c) == c.op \in {"ttl", "get", "exists", "fexists", "fget", "type", "keys", "scan", "hooks", "jget"}
\* commands the generator may issue in state st
Generable(st, c) == c.op \in {"jset", "jdel", "jget"} => CanJson(st, c)

-----------------------------------------------------------------------------
(* Properties of the model itself (C01): checked by TLC on the full graph.  *)
NoZeroFieldStored(st) ==   \* trivially true by representation: zero == absent
  \A k \in Keys, i \in Ids : ~Present(st, k, i) => st.cols[k][i] = NoObj
IsNegative(r) == r.rr.t \in {"err", "nil"} \/ (r.rr.t = "int" /\ r.rr.n <= 0) \/ r.rj.ok = FALSE
=============================================================================
