---------------------------- MODULE ReplyTrace ----------------------------
(***************************************************************************)
(* Validation of replies recorded from real tile38 servers (code -> model) *)
(* for property C17.                                                       *)
(*                                                                         *)
(* trace.ndjson is written by the harness (harness/reply): TLC-generated   *)
(* behaviours are executed in lock-step on one server per lane (a lane is  *)
(* a transport in one output mode), so all servers hold the same state     *)
(* when they are asked the same command.  One line per event:              *)
(*   ev = "connect": lane (re)connected: its mode is the transport default *)
(*   ev = "step":    one command; lanes = the readings of every lane       *)
(*   ev = "ack":     first replies of a live command (SUBSCRIBE, FENCE ..) *)
(*   ev = "push":    messages pushed on live connections                   *)
(* The output mode of every connection is a variable of this specification *)
(* (it is not told by the harness): it follows the OUTPUT commands seen on *)
(* the lane, and every reading is judged in the mode the specification     *)
(* says the reply must be rendered in.  The sentinel PING that follows     *)
(* each command on a stream lane shows the mode the server is really in    *)
(* (field ping); it must be the mode of the specification.                 *)
(* Judgement per line (never blocking; a rejected line is printed as       *)
(* <<"REJ", json>> with the reasons and counted):                          *)
(*   well-formed in its mode, Agree for every (RESP lane, JSON lane) pair, *)
(*   and, for behaviours of the Keyspace model, the model's own result.    *)
(***************************************************************************)
EXTENDS Reply, Json

CONSTANT Conc      \* Keyspace tokens -> [s |-> concrete string, j |-> JSON value it must read back as]

Trace == ndJsonDeserialize("trace.ndjson")

VARIABLES l,        \* next line
          mode,     \* lane name -> output mode of its connection
          nchk,     \* comparisons made so far
          nrej      \* lines rejected so far
vars == <<l, mode, nchk, nrej>>

ModeBefore(x) == IF Stream(x.tr) /\ x.lane \in DOMAIN mode THEN mode[x.lane] ELSE DefaultMode(x.tr)
ModeOf(x, rec) == ReplyMode(ModeBefore(x), rec.largs)

Sent(rec)  == {e \in 1..Len(rec.lanes) : rec.lanes[e].sent}
WfIn(x, m) == IF m = "resp" THEN WfRespReading(x) ELSE WfJsonReading(x)

-----------------------------------------------------------------------------
(* The Keyspace model's result (rec.exp = [t |-> "ks", rr, rj]).            *)
DocNode(d) == [t |-> "obj", s |-> "", l |-> "", n |-> "", i |-> "", v |-> 0,
               k |-> [e \in 1..Len(d) |-> Conc[d[e][1]].s],
               a |-> [e \in 1..Len(d) |-> Conc[d[e][2]].j]]
RECURSIVE MatchR(_, _, _)
MatchR(exp, r, op) ==
  CASE exp.t = "ok"     -> r.t = "simple" /\ r.s = "OK"
    [] exp.t = "nil"    -> r.t = "nil"
    [] exp.t = "int"    -> r.t = "int" /\ r.v = exp.n
    [] exp.t = "ttlpos" -> r.t = "int" /\ r.v >= 0
    [] exp.t = "err"    -> r.t = "error" /\ r.s \in {exp.e, "ERR " \o exp.e}
    [] exp.t = "sstr"   -> r.t = "simple" /\ r.s = exp.s
    [] exp.t = "str"    -> IF exp.s = "pos" /\ op = "scan" THEN r.t = "int" /\ r.v > 0
                           ELSE /\ r.t = "bulk"
                                /\ IF exp.s \in DOMAIN Conc
                                   THEN (IF Conc[exp.s].j.t = "obj" /\ Conc[exp.s].geo THEN r.j.t = "obj" /\ JEq(r.j, Conc[exp.s].j)
                                         ELSE r.s = Conc[exp.s].s)
                                   ELSE r.s = exp.s
    [] exp.t = "arr"    -> r.t = "arr" /\ Len(r.a) = Len(exp.a) /\ \A e \in 1..Len(exp.a) : MatchR(exp.a[e], r.a[e], op)
    [] exp.t = "doc"    -> r.t = "bulk" /\ r.j.t = "obj" /\ JEq(r.j, DocNode(exp.d))
    [] exp.t = "hooknames" -> /\ r.t = "arr" /\ Len(r.a) = Len(exp.a)
                              /\ \A e \in 1..Len(exp.a) : r.a[e].t = "arr" /\ Len(r.a[e].a) >= 1 /\ r.a[e].a[1].s = Conc[exp.a[e]].s
    [] OTHER -> FALSE
\* the JSON rendering of the model is not uniformly typed; what is taken from it is ok and the error text,
\* the payload is tied to the model through MatchR and Agree
MatchJ(rj, d) == Ok(d) = rj.ok /\ (~rj.ok => Err(d).s = rj.err)

-----------------------------------------------------------------------------
Reasons(rec) ==
  LET S == Sent(rec)
      md(e) == ModeOf(rec.lanes[e], rec)
      good == {e \in S : WfIn(rec.lanes[e], md(e))}
      RL == {e \in good : md(e) = "resp"}
      JL == {e \in good : md(e) = "json"}
  IN  {"malformed-" \o md(e) \o " " \o rec.lanes[e].lane : e \in S \ good}
      \cup {"mode " \o rec.lanes[e].lane : e \in {x \in S : rec.lanes[x].ping # "" /\ rec.lanes[x].ping # md(x)}}
      \cup {"closed " \o rec.lanes[e].lane : e \in {x \in S : rec.ev = "step" /\ Stream(rec.lanes[x].tr) /\ rec.lanes[x].closed}}
      \cup (IF rec.ev = "step"
            THEN {"disagree " \o rec.lanes[p[1]].lane \o " ~ " \o rec.lanes[p[2]].lane :
                     p \in {q \in RL \X JL : ~Agree(rec.largs, rec.lanes[q[1]].rv, rec.lanes[q[2]].jv)}}
            ELSE IF rec.ev = "ack"
            THEN {"disagree " \o rec.lanes[p[1]].lane \o " ~ " \o rec.lanes[p[2]].lane :
                     p \in {q \in RL \X JL : rec.lanes[q[1]].k = rec.lanes[q[2]].k
                                             /\ ~AckAgree(rec.largs, rec.lanes[q[1]].rv, rec.lanes[q[2]].jv)}}
            ELSE {})
      \cup (IF rec.exp.t = "ks"
            THEN {"model-resp " \o rec.lanes[e].lane : e \in {x \in RL : ~MatchR(rec.exp.rr, rec.lanes[x].rv, rec.model.op)}}
                 \cup {"model-json " \o rec.lanes[e].lane : e \in {x \in JL : ~MatchJ(rec.exp.rj, rec.lanes[x].jv)}}
            ELSE {})

\* pushed messages: every message is one JSON document when the connection is in JSON mode, one RESP value
\* otherwise; the k-th message of a RESP-mode lane and of a JSON-mode lane carry the same content
PushReasons(rec) ==
  LET S == Sent(rec)
      jmode(e) == ModeBefore(rec.lanes[e]) = "json"
      good == {e \in S : WfPush(rec.lanes[e], jmode(e))}
  IN  {"malformed-push " \o rec.lanes[e].lane : e \in S \ good}
      \cup {"disagree " \o rec.lanes[p[1]].lane \o " ~ " \o rec.lanes[p[2]].lane :
               p \in {q \in {e \in good : ~jmode(e)} \X {e \in good : jmode(e)} :
                        ~PushAgree(rec.lanes[q[1]], rec.lanes[q[2]])}}

Checks(rec) ==
  IF rec.ev = "connect" THEN 0
  ELSE LET S == Sent(rec) IN Cardinality(S) + Cardinality({p \in S \X S : p[1] < p[2]})

\* (no disjunction here: TLC would split the action and evaluate PrintT of both branches)
Report(rec, why) ==
  IF why = {} THEN TRUE
  ELSE PrintT(<<"REJ", ToJson([line |-> l, b |-> rec.b, i |-> rec.i, ev |-> rec.ev, tag |-> rec.tag, args |-> rec.args, why |-> why])>>)

NewMode(rec) ==
  IF rec.ev = "connect" THEN [x \in DOMAIN mode \cup {rec.lane} |-> IF x = rec.lane THEN DefaultMode(rec.tr) ELSE mode[x]]
  ELSE IF rec.ev = "step"
  THEN LET touched == {rec.lanes[e].lane : e \in {x \in Sent(rec) : Stream(rec.lanes[x].tr)}}
           rd(x) == rec.lanes[CHOOSE e \in Sent(rec) : rec.lanes[e].lane = x]
       IN [x \in DOMAIN mode \cup touched |-> IF x \in touched THEN ModeOf(rd(x), rec) ELSE mode[x]]
  ELSE mode

Init == l = 1 /\ mode = <<>> /\ nchk = 0 /\ nrej = 0 /\ TLCSet(1, 1) /\ TLCSet(2, 0) /\ TLCSet(3, 0)

Consume ==
  /\ l <= Len(Trace)
  /\ LET rec == Trace[l]
         why == IF rec.ev = "connect" THEN {} ELSE IF rec.ev = "push" THEN PushReasons(rec) ELSE Reasons(rec) IN
     /\ Report(rec, why)
     /\ mode' = NewMode(rec)
     /\ nchk' = nchk + Checks(rec)
     /\ nrej' = nrej + (IF why = {} THEN 0 ELSE 1)
  /\ l' = l + 1
  /\ TLCSet(1, l') /\ TLCSet(2, nchk') /\ TLCSet(3, nrej')

Spec == Init /\ [][Consume]_vars

\* the whole file was judged (POSTCONDITION, -workers 1); the counts are printed for the check
Consumed == /\ TLCGet(1) = Len(Trace) + 1
            /\ PrintT(<<"SUM", ToJson([lines |-> Len(Trace), checks |-> TLCGet(2), rejected |-> TLCGet(3)])>>)
=============================================================================
