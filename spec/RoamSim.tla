------------------------------ MODULE RoamSim ------------------------------
(* Random behaviours of Roam for `tlc -simulate': one random move (or, now  *)
(* and then, a DEL) per step, built with RandomElement so that larger grids *)
(* and more objects cost nothing; each behaviour is printed once, when it   *)
(* has MaxHist steps.  TLC checks the properties of Roam along every        *)
(* behaviour it follows.                                                    *)
EXTENDS Roam, Json

VARIABLE done
svars == <<pos, cfg, close, hist, done>>

SimInit == Init /\ done = FALSE

RE(S) == RandomElement(S)
\* the random choices are passed as operator arguments: TLC evaluates an argument once per call,
\* whereas a LET-defined RandomElement would be drawn again at every occurrence
Pick(o, c, d) == IF WithDel /\ pos[o] # 0 /\ d = 1 THEN Del(o) ELSE Set(o, c)
SimStep == /\ Len(hist) < MaxHist
           /\ Pick(RE(Objs), RE(Cells), RE(1..8))
           /\ UNCHANGED done
Finish == /\ Len(hist) = MaxHist /\ ~done /\ done' = TRUE
          /\ UNCHANGED vars
          /\ PrintT(<<"TR", ToJson([cfg |-> cfg, ids |-> IdSeq, h |-> hist])>>)
SimNext == SimStep \/ Finish
SimSpec == SimInit /\ [][SimNext]_svars
=============================================================================
