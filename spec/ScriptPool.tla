----------------------------- MODULE ScriptPool -----------------------------
(***************************************************************************)
(* The pool of script interpreters (internal/server/scripts.go lStatePool) *)
(* and everybody who takes interpreters from it:                           *)
(*   EVAL / EVALRO / EVALNA      Get, set the call's globals (KEYS, ARGV), *)
(*                               run, clear them, Put                      *)
(*   SCAN / WITHIN / NEARBY ...  one Get per WHEREEVAL clause while the    *)
(*   WHEREEVAL s n args          tokens are parsed (ARGV of the clause is  *)
(*                               set on it); when the command is over each *)
(*                               clause is closed: globals cleared, Put    *)
(*   a script whose call is such a search (interpreters nest)              *)
(* Get takes the interpreter put back last, or creates one when the pool   *)
(* is empty.  The pool starts with Ini interpreters.                       *)
(*                                                                         *)
(* C18 needs the pool to be SOUND: an interpreter is never in the pool     *)
(* twice, never in the pool while somebody runs on it, never used by two   *)
(* users at once - otherwise one call's KEYS/ARGV are visible to, and      *)
(* overwritten by, another (ArgvKept).                                     *)
(*                                                                         *)
(* OnParseError: what happens to the interpreters already taken when the   *)
(* tokens after the clauses are rejected:                                  *)
(*   "leak"      as coded: they are neither closed nor returned (they stay *)
(*               accounted for in `total`)                                 *)
(*   "once"      each is closed once                                       *)
(*   "perclause" each clause registers a handler that closes ALL clauses   *)
(*               (a well-meant fix that puts every interpreter back as     *)
(*               many times as there are clauses)                          *)
(* A behaviour is a sequence of commands on one connection; every step     *)
(* records what the harness can observe on the real server: the reply      *)
(* class, the number of idle interpreters, the number accounted for,       *)
(* whether the idle ones are distinct, and what a nested script saw of its *)
(* own ARGV after its calls.                                               *)
(***************************************************************************)
EXTENDS Integers, Sequences, FiniteSets, TLC

CONSTANTS Ini,           \* interpreters created at start-up (iniLuaPoolSize)
          Kinds,         \* step kinds a behaviour may contain
          MaxSteps,
          OnParseError   \* "leak" | "once" | "perclause"

VARIABLES pool,    \* sequence of interpreter ids (Get takes the last)
          total,   \* interpreters accounted for
          next,    \* next fresh id
          argv,    \* id -> tag of the call whose ARGV the interpreter's globals hold (0: none)
          hist
vars == <<pool, total, next, argv, hist>>

St(p, t, n, a) == [pool |-> p, total |-> t, next |-> n, argv |-> a]
Cur == St(pool, total, next, argv)

\* Get: [st, id]
Get(s) == IF s.pool = <<>> THEN [st |-> [s EXCEPT !.total = @ + 1, !.next = @ + 1, !.argv = @ @@ (s.next :> 0)], id |-> s.next]
          ELSE [st |-> [s EXCEPT !.pool = SubSeq(@, 1, Len(@) - 1)], id |-> s.pool[Len(s.pool)]]
Put(s, id) == [s EXCEPT !.pool = Append(@, id)]
SetArgv(s, id, tag) == [s EXCEPT !.argv[id] = tag]
\* whereevalT.Close: clear the clause's globals, Put
CloseClause(s, id) == Put(SetArgv(s, id, 0), id)

RECURSIVE TakeClauses(_, _, _, _)
\* parse n WHEREEVAL clauses: n Gets, each sets the clause's ARGV (tag) on its interpreter
TakeClauses(s, n, tag, ids) ==
  IF n = 0 THEN [st |-> s, ids |-> ids]
  ELSE LET g == Get(s) IN TakeClauses(SetArgv(g.st, g.id, tag), n - 1, tag, Append(ids, g.id))
RECURSIVE CloseAll(_, _)
CloseAll(s, ids) == IF ids = <<>> THEN s ELSE CloseAll(CloseClause(s, Head(ids)), Tail(ids))
RECURSIVE Times(_, _, _)
Times(s, ids, k) == IF k = 0 THEN s ELSE Times(CloseAll(s, ids), ids, k - 1)

\* a search with n clauses; bad: the tokens after the clauses are rejected; area: the area is rejected (the caller
\* holds the parsed clauses then and closes them)
Search(s, n, bad, tag) ==
  LET t == TakeClauses(s, n, tag, <<>>) IN
  IF ~bad THEN CloseAll(t.st, t.ids)
  ELSE CASE OnParseError = "leak" -> t.st
         [] OnParseError = "once" -> CloseAll(t.st, t.ids)
         [] OTHER                 -> Times(t.st, t.ids, n)
\* the second of two clauses does not compile: its interpreter was taken but the clause never existed
SearchSyn(s, tag) ==
  LET t == TakeClauses(s, 2, tag, <<>>) IN
  CASE OnParseError = "leak" -> t.st
    [] OnParseError = "once" -> CloseAll(t.st, t.ids)
    [] OTHER                 -> CloseClause(t.st, t.ids[1])

\* a script: Get, its ARGV, the nested search (if any), what it sees of its ARGV afterwards, clear, Put
Script(s, n, bad, tag) ==
  LET g == Get(s)
      s1 == SetArgv(g.st, g.id, tag)
      s2 == IF n = 0 THEN s1 ELSE Search(s1, n, bad, tag + 1000)
  IN [st |-> Put(SetArgv(s2, g.id, 0), g.id), kept |-> s2.argv[g.id] = tag]

\* [st, ok, kept]
Exec(s, kind, tag) ==
  LET R(st, ok, kept) == [st |-> st, ok |-> ok, kept |-> kept]
      sc(n, bad) == LET x == Script(s, n, bad, tag) IN R(x.st, ~bad, x.kept) IN
  CASE kind \in {"eval", "evalro", "evalna"} -> sc(0, FALSE)
    [] kind = "evalerr"        -> LET x == Script(s, 0, FALSE, tag) IN R(x.st, FALSE, TRUE)
    [] kind = "scan1"          -> R(Search(s, 1, FALSE, tag), TRUE, TRUE)
    [] kind = "scan2"          -> R(Search(s, 2, FALSE, tag), TRUE, TRUE)
    [] kind = "scan3"          -> R(Search(s, 3, FALSE, tag), TRUE, TRUE)
    [] kind = "within1"        -> R(Search(s, 1, FALSE, tag), TRUE, TRUE)
    [] kind = "within2"        -> R(Search(s, 2, FALSE, tag), TRUE, TRUE)
    [] kind = "scan1bad"       -> R(Search(s, 1, TRUE, tag), FALSE, TRUE)
    [] kind = "scan2bad"       -> R(Search(s, 2, TRUE, tag), FALSE, TRUE)
    [] kind = "scan3bad"       -> R(Search(s, 3, TRUE, tag), FALSE, TRUE)
    [] kind = "nearby2bad"     -> R(Search(s, 2, TRUE, tag), FALSE, TRUE)
    [] kind = "scan2syn"       -> R(SearchSyn(s, tag), FALSE, TRUE)
    \* the area after the clauses is rejected: cmdSearchArgs returns the clauses, the command closes them
    [] kind = "within1badarea" -> R(Search(s, 1, FALSE, tag), FALSE, TRUE)
    [] kind = "within2badarea" -> R(Search(s, 2, FALSE, tag), FALSE, TRUE)
    [] kind = "nested1"        -> sc(1, FALSE)
    [] kind = "nested2"        -> sc(2, FALSE)
    [] kind = "nestedro2"      -> sc(2, FALSE)
    [] kind = "nested2bad"     -> sc(2, TRUE)

Distinct(p) == \A i, j \in 1..Len(p) : i # j => p[i] # p[j]

Init == /\ pool = [i \in 1..Ini |-> i] /\ total = Ini /\ next = Ini + 1
        /\ argv = [i \in 1..Ini |-> 0] /\ hist = <<>>
Step(kind) ==
  /\ Len(hist) < MaxSteps
  /\ LET x == Exec(Cur, kind, Len(hist) + 1) IN
     /\ pool' = x.st.pool /\ total' = x.st.total /\ next' = x.st.next /\ argv' = x.st.argv
     /\ hist' = Append(hist, [kind |-> kind, ok |-> x.ok, argvkept |-> x.kept, idle |-> Len(x.st.pool),
                              total |-> x.st.total, distinct |-> Distinct(x.st.pool)])
Next == \E k \in Kinds : Step(k)
Spec == Init /\ [][Next]_vars
View == <<pool, total, next, argv>>

\* ---- C18: the pool is sound, hence a call's ARGV is its own from its first to its last instruction
PoolSound == Distinct(pool) /\ \A i \in 1..Len(pool) : pool[i] < next /\ argv[pool[i]] = 0
ArgvKept  == \A i \in 1..Len(hist) : hist[i].argvkept
Accounted == Len(pool) <= total
=============================================================================
