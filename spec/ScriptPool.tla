----------------------------- MODULE ScriptPool -----------------------------
(***************************************************************************)
(* The pool of script interpreters (internal/server/scripts.go lStatePool) *)
(* and everybody who takes interpreters from it:                           *)
(*   EVAL / EVALRO / EVALNA      Get, set the call's globals (KEYS, ARGV), *)
(*                               run, clear them, Put                      *)
(*   SCAN / WITHIN / NEARBY ...  one Get per WHEREEVAL clause while the    *)
(*   WHEREEVAL s n args          tokens are parsed (ARGV of the clause is  *)
(*                               set on it); when the command is over each *)
(*                               clause is closed: globals cleared, Put    *)
(*   a script whose call is such a search (interpreters nest)              *)
(* Get takes the interpreter put back last, or creates one when the pool   *)
(* is empty.  The pool starts with Ini interpreters.                       *)
(*                                                                         *)
(* C18 needs the pool to be SOUND: an interpreter is never in the pool     *)
(* twice, never in the pool while somebody runs on it, never used by two   *)
(* users at once - otherwise one call's KEYS/ARGV are visible to, and      *)
(* overwritten by, another (ArgvKept).                                     *)
(*                                                                         *)
(* OnParseError: what happens to the interpreters already taken when the   *)
(* tokens after the clauses are rejected:                                  *)
(*   "leak"      as coded: they are neither closed nor returned (they stay *)
(*               accounted for in `total`)                                 *)
(*   "once"      each is closed once                                       *)
(*   "perclause" each clause registers a handler that closes ALL clauses   *)
(*               (a well-meant fix that puts every interpreter back as     *)
(*               many times as there are clauses)                          *)
(*                                                                         *)
(* FENCES hold interpreters too: SETCHAN / SETHOOK ... WHEREEVAL s n args  *)
(* parses its clause like a search (Get, ARGV of the clause), and the      *)
(* fence evaluates the clause on THAT interpreter at every later SET.      *)
(* HookKeeps: what happens to the clause's interpreter when SETCHAN        *)
(* returns:                                                                *)
(*   "shared"    as coded (hooks.go: `defer args.Close()`): the clause is  *)
(*               closed - ARGV cleared, interpreter back in the pool -     *)
(*               while the fence goes on evaluating on it: the fence never *)
(*               sees its own ARGV again, and whoever takes the            *)
(*               interpreter next (a script whose SET fires the fence)     *)
(*               shows it ITS ARGV (HookSeesOwn, HookExclusive refuted)    *)
(*   "owned"     the fence owns the interpreter until it is deleted        *)
(* A fire step records what the fence's clause saw as ARGV: "own", "none"  *)
(* or "other" (with the tag of the call whose ARGV it was).                *)
(*                                                                         *)
(* A behaviour is a sequence of commands on one connection; every step     *)
(* records what the harness can observe on the real server: the reply      *)
(* class, the number of idle interpreters, the number accounted for,       *)
(* whether the idle ones are distinct, and what a nested script saw of its *)
(* own ARGV after its calls.                                               *)
(***************************************************************************)
EXTENDS Integers, Sequences, FiniteSets, TLC

CONSTANTS Ini,           \* interpreters created at start-up (iniLuaPoolSize)
          Kinds,         \* step kinds a behaviour may contain
          MaxSteps,
          OnParseError,  \* "leak" | "once" | "perclause"
          HookKeeps,     \* "shared" | "owned"
          EarlyReturn    \* "clears" | "keeps": what a script command that ends before its script runs (EVALSHA of an
                         \* unknown digest, a script that does not compile) does with the call's globals on the
                         \* interpreter it puts back.  "keeps" is what the pinned tree did (the clean-up was registered
                         \* after those returns): the next user of the interpreter reads the call's KEYS / ARGV

VARIABLES pool,    \* sequence of interpreter ids (Get takes the last)
          total,   \* interpreters accounted for
          next,    \* next fresh id
          argv,    \* id -> tag of the call whose ARGV the interpreter's globals hold (0: none)
          hook,    \* 0: no fence; else the id of the interpreter the fence's WHEREEVAL clause evaluates on
          hist
vars == <<pool, total, next, argv, hook, hist>>

HookTag == 999   \* tag of the fence clause's own ARGV

St(p, t, n, a, h) == [pool |-> p, total |-> t, next |-> n, argv |-> a, hook |-> h]
Cur == St(pool, total, next, argv, hook)

\* Get: [st, id]
Get(s) == IF s.pool = <<>> THEN [st |-> [s EXCEPT !.total = @ + 1, !.next = @ + 1, !.argv = @ @@ (s.next :> 0)], id |-> s.next]
          ELSE [st |-> [s EXCEPT !.pool = SubSeq(@, 1, Len(@) - 1)], id |-> s.pool[Len(s.pool)]]
Put(s, id) == [s EXCEPT !.pool = Append(@, id)]
SetArgv(s, id, tag) == [s EXCEPT !.argv[id] = tag]
\* whereevalT.Close: clear the clause's globals, Put
CloseClause(s, id) == Put(SetArgv(s, id, 0), id)

RECURSIVE TakeClauses(_, _, _, _)
\* parse n WHEREEVAL clauses: n Gets, each sets the clause's ARGV (tag) on its interpreter
TakeClauses(s, n, tag, ids) ==
  IF n = 0 THEN [st |-> s, ids |-> ids]
  ELSE LET g == Get(s) IN TakeClauses(SetArgv(g.st, g.id, tag), n - 1, tag, Append(ids, g.id))
RECURSIVE CloseAll(_, _)
CloseAll(s, ids) == IF ids = <<>> THEN s ELSE CloseAll(CloseClause(s, Head(ids)), Tail(ids))
RECURSIVE Times(_, _, _)
Times(s, ids, k) == IF k = 0 THEN s ELSE Times(CloseAll(s, ids), ids, k - 1)

\* a search with n clauses; bad: the tokens after the clauses are rejected; area: the area is rejected (the caller
\* holds the parsed clauses then and closes them)
Search(s, n, bad, tag) ==
  LET t == TakeClauses(s, n, tag, <<>>) IN
  IF ~bad THEN CloseAll(t.st, t.ids)
  ELSE CASE OnParseError = "leak" -> t.st
         [] OnParseError = "once" -> CloseAll(t.st, t.ids)
         [] OTHER                 -> Times(t.st, t.ids, n)
\* the second of two clauses does not compile: its interpreter was taken but the clause never existed
SearchSyn(s, tag) ==
  LET t == TakeClauses(s, 2, tag, <<>>) IN
  CASE OnParseError = "leak" -> t.st
    [] OnParseError = "once" -> CloseAll(t.st, t.ids)
    [] OTHER                 -> CloseClause(t.st, t.ids[1])

\* what the fence's clause sees as ARGV when a SET fires it in state s: [sees, tag]
Sees(s) == IF s.hook = 0 THEN [sees |-> "", tag |-> 0]
           ELSE LET a == s.argv[s.hook] IN
                IF a = HookTag THEN [sees |-> "own", tag |-> a]
                ELSE IF a = 0 THEN [sees |-> "none", tag |-> 0] ELSE [sees |-> "other", tag |-> a]
NoSees == [sees |-> "", tag |-> 0]

\* a script: Get, its ARGV, the nested search (if any), what it sees of its ARGV afterwards, clear, Put
\* (fire: its call is a SET into the fence - `saw` is what the fence's clause saw meanwhile)
Script(s, n, bad, tag) ==
  LET g == Get(s)
      s1 == SetArgv(g.st, g.id, tag)
      s2 == IF n = 0 THEN s1 ELSE Search(s1, n, bad, tag + 1000)
  IN [st |-> Put(SetArgv(s2, g.id, 0), g.id), kept |-> s2.argv[g.id] = tag, saw |-> Sees(s1)]

\* EVALSHA of an unknown digest / a script that does not compile: Get, the call's globals, return, Put
ScriptEarly(s, tag) ==
  LET g == Get(s)
      s1 == SetArgv(g.st, g.id, tag)
  IN Put(IF EarlyReturn = "clears" THEN SetArgv(s1, g.id, 0) ELSE s1, g.id)

\* SETCHAN with one WHEREEVAL clause (the same command again when the fence exists: parsed, found equal, dropped)
SetChan(s) ==
  LET t == TakeClauses(s, 1, HookTag, <<>>) IN
  IF s.hook # 0 THEN CloseAll(t.st, t.ids)
  ELSE IF HookKeeps = "shared" THEN [CloseAll(t.st, t.ids) EXCEPT !.hook = t.ids[1]]
       ELSE [t.st EXCEPT !.hook = t.ids[1]]
DelChan(s) ==
  IF s.hook = 0 THEN s
  ELSE IF HookKeeps = "shared" THEN [s EXCEPT !.hook = 0]
       ELSE [CloseClause(s, s.hook) EXCEPT !.hook = 0]

\* [st, ok, kept, saw]
Exec(s, kind, tag) ==
  LET R(st, ok, kept) == [st |-> st, ok |-> ok, kept |-> kept, saw |-> NoSees]
      sc(n, bad) == LET x == Script(s, n, bad, tag) IN R(x.st, ~bad, x.kept) IN
  CASE kind \in {"eval", "evalro", "evalna"} -> sc(0, FALSE)
    [] kind \in {"evalshamiss", "evalsyntax"} -> R(ScriptEarly(s, tag), FALSE, TRUE)
    [] kind = "setchan"        -> R(SetChan(s), TRUE, TRUE)
    [] kind = "delchan"        -> R(DelChan(s), TRUE, TRUE)
    [] kind = "fire"           -> [st |-> s, ok |-> TRUE, kept |-> TRUE, saw |-> Sees(s)]
    [] kind = "evalfire"       -> LET x == Script(s, 0, FALSE, tag) IN [st |-> x.st, ok |-> TRUE, kept |-> x.kept, saw |-> x.saw]
    [] kind = "evalerr"        -> LET x == Script(s, 0, FALSE, tag) IN R(x.st, FALSE, TRUE)
    [] kind = "scan1"          -> R(Search(s, 1, FALSE, tag), TRUE, TRUE)
    [] kind = "scan2"          -> R(Search(s, 2, FALSE, tag), TRUE, TRUE)
    [] kind = "scan3"          -> R(Search(s, 3, FALSE, tag), TRUE, TRUE)
    [] kind = "within1"        -> R(Search(s, 1, FALSE, tag), TRUE, TRUE)
    [] kind = "within2"        -> R(Search(s, 2, FALSE, tag), TRUE, TRUE)
    [] kind = "scan1bad"       -> R(Search(s, 1, TRUE, tag), FALSE, TRUE)
    [] kind = "scan2bad"       -> R(Search(s, 2, TRUE, tag), FALSE, TRUE)
    [] kind = "scan3bad"       -> R(Search(s, 3, TRUE, tag), FALSE, TRUE)
    [] kind = "nearby2bad"     -> R(Search(s, 2, TRUE, tag), FALSE, TRUE)
    [] kind = "scan2syn"       -> R(SearchSyn(s, tag), FALSE, TRUE)
    \* the area after the clauses is rejected: cmdSearchArgs returns the clauses, the command closes them
    [] kind = "within1badarea" -> R(Search(s, 1, FALSE, tag), FALSE, TRUE)
    [] kind = "within2badarea" -> R(Search(s, 2, FALSE, tag), FALSE, TRUE)
    [] kind = "nested1"        -> sc(1, FALSE)
    [] kind = "nested2"        -> sc(2, FALSE)
    [] kind = "nestedro2"      -> sc(2, FALSE)
    [] kind = "nested2bad"     -> sc(2, TRUE)

Distinct(p) == \A i, j \in 1..Len(p) : i # j => p[i] # p[j]

InitSt == St([i \in 1..Ini |-> i], Ini, Ini + 1, [i \in 1..Ini |-> 0], 0)
Init == /\ pool = InitSt.pool /\ total = InitSt.total /\ next = InitSt.next
        /\ argv = InitSt.argv /\ hook = InitSt.hook /\ hist = <<>>
\* the pool accounting (idle, accounted for) after every step of a given sequence of kinds - evaluated as a constant
\* expression for every pool discipline, so that a recorded run can be matched against each of them
RECURSIVE RunCounts(_, _, _)
RunCounts(s, ks, n) ==
  IF ks = <<>> THEN <<>>
  ELSE LET x == Exec(s, Head(ks), n) IN <<<<Len(x.st.pool), x.st.total>>>> \o RunCounts(x.st, Tail(ks), n + 1)
Step(kind) ==
  /\ Len(hist) < MaxSteps
  /\ LET x == Exec(Cur, kind, Len(hist) + 1) IN
     /\ pool' = x.st.pool /\ total' = x.st.total /\ next' = x.st.next /\ argv' = x.st.argv /\ hook' = x.st.hook
     /\ hist' = Append(hist, [kind |-> kind, ok |-> x.ok, argvkept |-> x.kept, idle |-> Len(x.st.pool),
                              total |-> x.st.total, distinct |-> Distinct(x.st.pool),
                              sees |-> x.saw.sees, seestag |-> x.saw.tag])
Next == \E k \in Kinds : Step(k)
Spec == Init /\ [][Next]_vars
View == <<pool, total, next, argv, hook>>

\* ---- C18: the pool is sound, hence a call's ARGV is its own from its first to its last instruction
PoolSound == Distinct(pool) /\ \A i \in 1..Len(pool) : pool[i] < next /\ argv[pool[i]] = 0
ArgvKept  == \A i \in 1..Len(hist) : hist[i].argvkept
Accounted == Len(pool) <= total
\* ---- a fence's clause is a user of its interpreter like any other: nobody else has it, and it keeps the clause's ARGV
HookExclusive == hook # 0 => /\ \A i \in 1..Len(pool) : pool[i] # hook
                             /\ argv[hook] = HookTag
HookSeesOwn   == \A i \in 1..Len(hist) : hist[i].sees \in {"", "own"}
=============================================================================
