--------------------------- MODULE PrewriteTrace ---------------------------
(* Trace validation for C08.  The harness forces schedules on the real      *)
(* server and records, in the order the events really happened (all hooks   *)
(* fire either under the server's write lock or at a gate the scheduler     *)
(* holds):                                                                  *)
(*   reset            start of a schedule: everything flushed, flag clear   *)
(*   append c n end   command number n of connection c entered the buffer;  *)
(*                    the log is `end` bytes long including it              *)
(*   flush  c n bytes the buffer was written: commands <= n, `bytes` bytes  *)
(*                    (c = 0: background flusher or a foreign connection)   *)
(*   test   c dirty   the branch the dirty-flag test took                   *)
(*   write  c last end fsize   connection c writes its replies to the       *)
(*                    socket; at that instant the file on disk is `fsize`   *)
(*                    bytes long                                            *)
(* The events drive the variables of the Prewrite design (intended          *)
(* constants: the flag is cleared inside the lock by the flushing           *)
(* connection).  The verdict is AckImpliesFlushed evaluated at every write: *)
(* the connection's last command is covered by a flush AND its bytes are in *)
(* the file.  Disagreement of a `test` branch with the design's flag is     *)
(* counted as a diagnostic (flagDiffs), not a verdict: the statement of C08 *)
(* does not prescribe the flag protocol.                                    *)
EXTENDS Integers, Sequences, TLC, Json

Trace == ndJsonDeserialize("trace.ndjson")
MaxConn == 8
ConnIds == 0..MaxConn

VARIABLES l, appended, flushed, fbytes, dirty, myLast, myEnd, ackFails, bindOK, flagDiffs
vars == <<l, appended, flushed, fbytes, dirty, myLast, myEnd, ackFails, bindOK, flagDiffs>>

Init == /\ l = 1 /\ appended = 0 /\ flushed = 0 /\ fbytes = 0 /\ dirty = FALSE
        /\ myLast = [c \in ConnIds |-> 0] /\ myEnd = [c \in ConnIds |-> 0]
        /\ ackFails = 0 /\ bindOK = TRUE /\ flagDiffs = 0

Ev == Trace[l]

Reset == /\ Ev.e = "reset"
         /\ appended' = Ev.n /\ flushed' = Ev.n /\ dirty' = FALSE
         /\ myLast' = [c \in ConnIds |-> 0] /\ myEnd' = [c \in ConnIds |-> 0]
         /\ fbytes' = Ev.bytes
         /\ UNCHANGED <<ackFails, bindOK, flagDiffs>>

\* Prewrite!Exec
AppendEv == /\ Ev.e = "append"
            /\ appended' = Ev.n /\ dirty' = TRUE
            /\ myLast' = [myLast EXCEPT ![Ev.c] = Ev.n]
            /\ myEnd' = [myEnd EXCEPT ![Ev.c] = Ev.end]
            /\ bindOK' = (bindOK /\ Ev.n = appended + 1)          \* append numbers are consecutive
            /\ UNCHANGED <<flushed, fbytes, ackFails, flagDiffs>>

\* Prewrite!LockFlushUnlock (c # 0) or Prewrite!BgSync (c = 0)
FlushEv == /\ Ev.e = "flush"
           /\ flushed' = Ev.n /\ fbytes' = Ev.bytes
           /\ dirty' = IF Ev.c # 0 THEN FALSE ELSE dirty
           /\ bindOK' = (bindOK /\ Ev.n = appended)               \* a flush writes the whole buffer
           /\ UNCHANGED <<appended, myLast, myEnd, ackFails, flagDiffs>>

\* Prewrite!TestDirty
TestEv == /\ Ev.e = "test"
          /\ flagDiffs' = flagDiffs + (IF Ev.dirty = dirty THEN 0 ELSE 1)
          /\ UNCHANGED <<appended, flushed, fbytes, dirty, myLast, myEnd, ackFails, bindOK>>

\* Prewrite!SockWrite: AckImpliesFlushed at the moment of the write
WriteEv == /\ Ev.e = "write"
           /\ LET ok == /\ myLast[Ev.c] <= flushed          \* covered by a flush (design level)
                         /\ myEnd[Ev.c] <= Ev.fsize           \* and the bytes are in the file (ground truth)
              IN ackFails' = IF ok THEN ackFails
                             ELSE IF PrintT(<<"ACKFAIL", l, Ev.s, Ev.c>>) THEN ackFails + 1 ELSE ackFails + 1
           /\ bindOK' = (bindOK /\ Ev.last = myLast[Ev.c] /\ Ev.end = myEnd[Ev.c] /\ fbytes <= Ev.fsize)
           /\ UNCHANGED <<appended, flushed, fbytes, dirty, myLast, myEnd, flagDiffs>>

Next == /\ l <= Len(Trace)
        /\ (Reset \/ AppendEv \/ FlushEv \/ TestEv \/ WriteEv)
        /\ l' = l + 1
        /\ TLCSet(1, l') /\ TLCSet(2, flagDiffs') /\ TLCSet(3, ackFails')

Spec == Init /\ [][Next]_vars

\* the verdict (C08): AckImpliesFlushed held at every write of the trace.  Failures are counted and
\* printed (ACKFAIL line schedule connection) instead of stopping at the first, so that every failing
\* schedule of a run is reported; the check fails iff the count is non-zero.
AckImpliesFlushed == TLCGet(3) = 0
TraceWellFormed == bindOK       \* the harness' own bookkeeping agrees with the design variables
Accepted == TLCGet(1) = Len(Trace) + 1
PrintDiag == PrintT(<<"FLAGDIFFS", TLCGet(2)>>) /\ PrintT(<<"ACKFAILS", TLCGet(3)>>)
Post == PrintDiag /\ Accepted /\ AckImpliesFlushed
=============================================================================
