------------------------------ MODULE RoamGen ------------------------------
(* Behaviour generator for Roam (model -> code).  The history is hidden     *)
(* from the VIEW, so TLC's breadth-first search visits every configuration  *)
(* (positions x pattern x NODWELL) once and the action property Emit prints *)
(* one shortest behaviour per transition of the reachable graph: every move *)
(* of every object from every configuration, with the entries a roaming     *)
(* fence must report at each step.                                          *)
EXTENDS Roam, Json

Emit == [][PrintT(<<"TR", ToJson([cfg |-> cfg', ids |-> IdSeq, h |-> hist'])>>)]_vars
=============================================================================
