------------------------------ MODULE ProtoSim ------------------------------
(* Long streams for Proto (tlc -simulate): pipelines of thousands of frames  *)
(* in mixed syntaxes and values larger than the server's read buffer.        *)
(*                                                                           *)
(* The stream is built frame by frame (one random frame per step, no set is  *)
(* enumerated); the connection state and the store are advanced with the     *)
(* same operators as in Proto (Handle, Exec, Render), i.e. on the message    *)
(* level: that the byte level delivers exactly these messages for every      *)
(* segmentation is what ProtoGen checks exhaustively (OnePerCommand,         *)
(* SplitInvariant).  The behaviour is printed once, by Finish.               *)
EXTENDS Proto, Json

CONSTANTS
  Kinds,     \* syntaxes of the frames inside the stream (no HTTP)
  LastKinds, \* syntaxes of the last frame (may contain hget / hpost)
  Ids, Vals, Marks,   \* tokens
  BigVals,   \* value tokens that the harness expands to values larger than the read buffer
  BigOneIn,  \* a SET carries a big value with probability 1/BigOneIn (1/2 in streams of at most 10 frames)
  Lens,      \* stream lengths (frames); the behaviour chooses one
  LastCmd    \* <<>>, or the command of the last frame (RESP): the harness pads its argument so that the whole stream
             \* has a chosen length relative to the server's read buffer

VARIABLES frames, conn, store, replies, target, done
vars == <<frames, conn, store, replies, target, done>>

RE(S) == RandomElement(S)
\* (the argument makes the definitions state dependent: TLC evaluates constant-level definitions only once)
RandCmd(z) ==
  LET op == RE({"SET", "SET", "SET", "GET", "GET", "GET", "ECHO", "ECHO", "PING", "ZZ"}) IN
  CASE op = "SET"  -> <<"SET", "K", RE(Ids), "STRING", IF RE(1..(IF target <= 10 THEN 2 ELSE BigOneIn)) = 1 THEN RE(BigVals) ELSE RE(Vals)>>
    [] op = "GET"  -> <<"GET", "K", RE(Ids)>>
    [] op = "ECHO" -> <<"ECHO", RE(Marks)>>
    [] op = "PING" -> <<"PING">>
    [] op = "ZZ"   -> <<"ZZ">>
RandFrame(z, last) ==
  LET f == [k |-> IF last THEN RE(LastKinds) ELSE RE(Kinds), a |-> RandCmd(z)]
  IN IF last /\ LastCmd # <<>> THEN [k |-> "resp", a |-> LastCmd]
     ELSE IF Encodable(f) THEN f ELSE [f EXCEPT !.k = "resp"]

Init == /\ frames = <<>> /\ conn = InitConn /\ store = [i \in Ids |-> ""] /\ replies = <<>> /\ done = FALSE
        /\ target \in Lens

\* (the random frame is bound by a quantifier over a singleton: a LET definition would be re-evaluated,
\*  i.e. drawn again, at every use)
Step == /\ Len(frames) < target
        /\ \E f \in {RandFrame(Len(frames), Len(frames) = target - 1)} :
             LET c2 == Handle([conn EXCEPT !.out = <<>>], <<[kind |-> KindOf(f), args |-> Bytes(f.a)]>>, 1)
                 o  == c2.out[1]
                 e  == Exec(store, f.a)
                 r  == Render(o.enc, e.r)
             IN /\ frames' = Append(frames, f)
                /\ conn' = c2
                /\ store' = e.s
                /\ replies' = Append(replies, [x |-> "cmd", t |-> o.t, enc |-> o.enc, c |-> r.c, v |-> r.v])
        /\ UNCHANGED <<target, done>>

Finish == /\ Len(frames) = target /\ ~done /\ done' = TRUE
          /\ UNCHANGED <<frames, conn, store, replies, target>>
          /\ PrintT(<<"TR", ToJson([f |-> frames, exp |-> [replies |-> replies, closed |-> conn.closed, carry |-> 0, crashed |-> FALSE]])>>)

SimSpec == Init /\ [][Step \/ Finish]_vars

\* one reply per frame, in the transport of the frame's syntax; only a final HTTP request closes
Shape == /\ Len(replies) = Len(frames)
         /\ \A i \in 1..Len(frames) : replies[i].t = Transport(KindOf(frames[i]))
         /\ conn.closed => Len(frames) = target /\ IsHTTP(frames[target])
=============================================================================
