----------------------------- MODULE FiltersGen -----------------------------
(* Case generator for Filters (C12).  TLC enumerates datasets as initial    *)
(* states and evaluates a fixed list of queries on each; the list is        *)
(* printed once, every dataset is printed with the expected IDS result and  *)
(* the expected COUNT of every query.  Two modes:                           *)
(*   "values": ONE dataset holding every field-value kind (each as a point  *)
(*             and as a string object) x every WHERE bound pair / operator  *)
(*             / WHEREIN list over the value table;                         *)
(*   "enum"  : ALL datasets over a few slots (absent / point / string,      *)
(*             numeric field) x every combination of family, MATCH, WHERE   *)
(*             (range, operator, expression), WHEREIN, WHEREEVAL, ASC/DESC. *)
EXTENDS Filters, Json, TLC, SequencesExt

CONSTANTS Mode,        \* "values" | "enum"
          Fams,        \* set of query families to generate
          WithDesc,    \* generate DESC variants (scan, search)
          EnumFVals,   \* enum mode: set of field tokens an object may carry (numbers)
          EnumPats,    \* enum mode: set of MATCH patterns (byte sequences); <<>> = no MATCH
          CorruptQ     \* self-test of the binding: 0 = off; n > 0 falsifies the expected COUNT of query n

VARIABLES ds, done
vars == <<ds, done>>

Toks == [i \in 1..Len(ValueTable) |-> ValueTable[i].tok]

\* ---- datasets -------------------------------------------------------------
\* values mode: slot 2i-1 is a point, slot 2i a string object, both with value i of the table
ValuesDs == [s \in SlotIdx |-> Obj(IF s % 2 = 1 THEN "point" ELSE "string", Toks[(s + 1) \div 2])]
EnumKinds == {NoObj} \cup {Obj(g, f) : g \in {"point", "string"}, f \in EnumFVals}
Datasets == IF Mode = "values" THEN {ValuesDs} ELSE [SlotIdx -> EnumKinds]

\* ---- queries --------------------------------------------------------------
Q0(fam, desc) == Query(fam, <<>>, "none", "0", FALSE, "0", FALSE, "==", <<>>, "none", desc)
Descs(fam) == IF WithDesc /\ Ordered(fam) THEN BOOLEAN ELSE {FALSE}
Expressible(a, ax) == ax \/ ~Val(a).alpha


\* (operators with a parameter on purpose: TLC evaluates zero-arity constant definitions eagerly at
\* start-up, in every mode; big sets are built per family and turned into sequences at once)
RECURSIVE ConcatSeqs(_)
ConcatSeqs(ss) == IF ss = <<>> THEN <<>> ELSE ss[1] \o ConcatSeqs(Tail(ss))

ValuesQueries(fam) ==
  ConcatSeqs(<<
    SetToSeq({Q0(fam, d) : d \in Descs(fam)}),
    SetToSeq({qq \in {[Q0(fam, FALSE) EXCEPT !.wk = "range", !.wmin = a, !.wminx = ax, !.wmax = b, !.wmaxx = bx] :
                        a \in TokSet, ax \in BOOLEAN, b \in TokSet, bx \in BOOLEAN} :
              Expressible(qq.wmin, qq.wminx)}),
    SetToSeq({[Q0(fam, d) EXCEPT !.wk = "op", !.wop = op, !.wmax = b] : d \in Descs(fam), op \in Ops, b \in TokSet}),
    SetToSeq({[Q0(fam, FALSE) EXCEPT !.win = <<a>>] : a \in TokSet}),
    SetToSeq({[Q0(fam, FALSE) EXCEPT !.win = <<a, b>>] : a \in TokSet, b \in TokSet}) >>)

EnumWheres(dummy) ==
  {[wk |-> "none", a |-> "0", ax |-> FALSE, b |-> "0", bx |-> FALSE, op |-> "=="],
   [wk |-> "range", a |-> "1", ax |-> FALSE, b |-> "1", bx |-> FALSE, op |-> "=="],
   [wk |-> "range", a |-> "1", ax |-> TRUE, b |-> "+inf", bx |-> FALSE, op |-> "=="],
   [wk |-> "op", a |-> "0", ax |-> FALSE, b |-> "1", bx |-> FALSE, op |-> "<="],
   [wk |-> "expr", a |-> "0", ax |-> FALSE, b |-> "1", bx |-> FALSE, op |-> ">"],
   [wk |-> "expr", a |-> "0", ax |-> FALSE, b |-> "0", bx |-> FALSE, op |-> "=="]}
EnumQueries(fam) ==
  SetToSeq({qq \in {Query(fam, p, w.wk, w.a, w.ax, w.b, w.bx, w.op, wi, we, d) :
                      p \in EnumPats, w \in EnumWheres(0), wi \in {<<>>, <<"1">>}, we \in {"none", "true", "false"},
                      d \in BOOLEAN} : qq.desc \in Descs(fam)})

FamSeq == SetToSeq(Fams)
QuerySeq == ConcatSeqs([i \in 1..Len(FamSeq) |-> IF Mode = "values" THEN ValuesQueries(FamSeq[i]) ELSE EnumQueries(FamSeq[i])])
NQ == Len(QuerySeq)

\* ---- expected results -----------------------------------------------------
Expected(d, j) == LET q == QuerySeq[j]
                      ids == Ids(d, q)
                  IN [ids |-> ids, n |-> IF j = CorruptQ THEN Count(d, q) + 1 ELSE Count(d, q)]

DsRecord(d) == [kind |-> "dataset",
                objs |-> [s \in SlotIdx |-> [geo |-> d[s].geo, f |-> d[s].f]],
                nall |-> Cardinality({s \in SlotIdx : d[s].geo # "none"}),
                r |-> [j \in 1..NQ |-> Expected(d, j)]]

Init == ds \in Datasets /\ done = FALSE
Next == /\ ~done /\ done' = TRUE /\ ds' = ds
        /\ PrintT(<<"TR", ToJson(DsRecord(ds))>>)
Spec == Init /\ [][Next]_vars

\* header: slots, value table, query list (printed once, before any dataset)
ASSUME PrintT(<<"TR", ToJson([kind |-> "header", mode |-> Mode, slots |-> Slots,
                              values |-> [i \in 1..Len(ValueTable) |-> [tok |-> ValueTable[i].tok, txt |-> ValueTable[i].txt]],
                              queries |-> [j \in 1..NQ |-> [q |-> QuerySeq[j], ordered |-> Ordered(QuerySeq[j].fam)]]])>>)

\* ---- theorems about the value order (FieldOrder) --------------------------
ASSUME OrderIsStrictWeak
ASSUME KindOrder
ASSUME OpsAreBounds
ASSUME MissingIsZero

\* ---- properties of the design, checked on every dataset --------------------
Strip(q) == Q0(q.fam, FALSE)
\* a filtered query returns exactly the unfiltered walk filtered by each clause on its own
FiltersIntersect ==       \* (evaluated on the "done" copy of each dataset: that is where TLC's workers run in parallel)
  done => \A j \in 1..NQ : LET q == QuerySeq[j] IN
    AsSet(Ids(ds, q)) =
      AsSet(Ids(ds, [Strip(q) EXCEPT !.match = q.match]))
      \cap AsSet(Ids(ds, [Strip(q) EXCEPT !.wk = q.wk, !.wmin = q.wmin, !.wminx = q.wminx, !.wmax = q.wmax,
                                          !.wmaxx = q.wmaxx, !.wop = q.wop]))
      \cap AsSet(Ids(ds, [Strip(q) EXCEPT !.win = q.win]))
      \cap AsSet(Ids(ds, [Strip(q) EXCEPT !.weval = q.weval]))
\* MATCH * is no filter; results are duplicate-free; COUNT never exceeds the family's population
Sanity ==
  done => \A j \in 1..NQ : LET q == QuerySeq[j]  r == Ids(ds, q) IN
    /\ Cardinality(AsSet(r)) = Len(r)
    /\ q.match = <<Star>> => r = Ids(ds, [q EXCEPT !.match = <<>>])
    /\ Count(ds, q) <= Cardinality({s \in SlotIdx : InFamily(ds[s], q.fam)})
    /\ q.desc => r = RevSeq(Ids(ds, [q EXCEPT !.desc = FALSE]))
=============================================================================
