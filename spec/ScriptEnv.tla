------------------------------ MODULE ScriptEnv ------------------------------
(* The script environment (C18 sandbox): everything reachable from the globals of an idle   *)
(* interpreter, as "name:type", must be exactly this list - no more, no less.               *)
AllowList == {
  "(globals-metatable).__newindex:function", "_G:table", "_GOPHER_LUA_VERSION:string", "_VERSION:string",
  "json.decode:function", "json.encode:function", "json:table",
  "math.abs:function", "math.acos:function", "math.asin:function", "math.atan2:function", "math.atan:function",
  "math.ceil:function", "math.cos:function", "math.cosh:function", "math.deg:function", "math.exp:function",
  "math.floor:function", "math.fmod:function", "math.frexp:function", "math.huge:number", "math.ldexp:function",
  "math.log10:function", "math.log:function", "math.max:function", "math.min:function", "math.mod:function",
  "math.modf:function", "math.pi:number", "math.pow:function", "math.rad:function", "math.random:function",
  "math.randomseed:function", "math.sin:function", "math.sinh:function", "math.sqrt:function", "math.tan:function",
  "math.tanh:function", "math:table",
  "os.clock:function", "os.difftime:function", "os:table",
  "string.__index:table", "string.byte:function", "string.char:function", "string.dump:function", "string.find:function",
  "string.format:function", "string.gfind:function", "string.gmatch:function", "string.gsub:function",
  "string.len:function", "string.lower:function", "string.match:function", "string.rep:function",
  "string.reverse:function", "string.sub:function", "string.upper:function", "string:table",
  "table.concat:function", "table.getn:function", "table.insert:function", "table.maxn:function",
  "table.remove:function", "table.sort:function", "table:table",
  "tile38.call:function", "tile38.distance_to:function", "tile38.error_reply:function", "tile38.pcall:function",
  "tile38.sha1hex:function", "tile38.status_reply:function", "tile38:table",
  "tonumber:function", "tostring:function" }
=============================================================================
