------------------------------ MODULE Filters ------------------------------
(***************************************************************************)
(* Filtered queries on one collection (C12): which objects a query keeps,  *)
(* in which order, and what COUNT must be.                                 *)
(*                                                                         *)
(*   SCAN       walks all objects by id                                    *)
(*   SEARCH     walks the string objects by (value, id)                    *)
(*   WITHIN / INTERSECTS / NEARBY  (query area covering every point used)  *)
(*              walk the geometries in an order the statement leaves open  *)
(*   MATCH p    keeps ids (SEARCH: values) matching the glob     (Glob)    *)
(*   WHERE / WHEREIN keep objects by their field value       (FieldOrder)  *)
(*   WHEREEVAL  keeps what the script accepts (abstract: constant scripts) *)
(*   Ids(q)     the kept objects in walk order, DESC = the reverse         *)
(*   Count(q)   = Len(Ids(q))  -- whatever shortcut the server takes       *)
(*                                                                         *)
(* A dataset assigns to every slot (a fixed id with a fixed string value)  *)
(* nothing, a point or a string object, and the value of field "f".        *)
(***************************************************************************)
EXTENDS Glob, FieldOrder

CONSTANT Slots     \* sequence of [id |-> bytes, val |-> bytes], ascending by id

SlotIdx == 1..Len(Slots)
ASSUME \A i \in 1..(Len(Slots) - 1) : SLess(Slots[i].id, Slots[i + 1].id)

NoObj == [geo |-> "none", f |-> "0"]
Obj(g, f) == [geo |-> g, f |-> f]

\* the uniform query record
Query(fam, match, wk, a, ax, b, bx, op, win, we, desc) ==
  [fam |-> fam, match |-> match, wk |-> wk, wmin |-> a, wminx |-> ax, wmax |-> b, wmaxx |-> bx,
   wop |-> op, win |-> win, weval |-> we, desc |-> desc]

InFamily(o, fam) ==
  CASE fam = "scan"   -> o.geo # "none"
    [] fam = "search" -> o.geo = "string"
    [] OTHER          -> o.geo = "point"          \* within, intersects, nearby

Subject(i, fam) == IF fam = "search" THEN Slots[i].val ELSE Slots[i].id

MatchOK(i, q) == q.match = <<>> \/ Match(q.match, Subject(i, q.fam))
WhereOK(v, q) ==
  CASE q.wk = "none"  -> TRUE
    [] q.wk = "range" -> Where(v, q.wmin, q.wminx, q.wmax, q.wmaxx)
    [] q.wk = "op"    -> WhereOp(v, q.wop, q.wmax)
    [] q.wk = "expr"  -> WhereOp(v, q.wop, q.wmax)     \* WHERE "f op x": numeric operands only (generator)
WhereInOK(v, q) == q.win = <<>> \/ WhereIn(v, q.win)
EvalOK(q) == q.weval # "false"                       \* "none", "true": keeps everything

Keep(ds, i, q) ==
  /\ InFamily(ds[i], q.fam)
  /\ MatchOK(i, q) /\ WhereOK(ds[i].f, q) /\ WhereInOK(ds[i].f, q) /\ EvalOK(q)

\* walk orders ---------------------------------------------------------------
ById == [i \in SlotIdx |-> i]
ValLess(i, j) == \/ SLess(Slots[i].val, Slots[j].val)
                 \/ Slots[i].val = Slots[j].val /\ SLess(Slots[i].id, Slots[j].id)
RECURSIVE InsertSorted(_, _)
InsertSorted(s, x) == IF s = <<>> THEN <<x>>
                      ELSE IF ValLess(x, s[1]) THEN <<x>> \o s ELSE <<s[1]>> \o InsertSorted(Tail(s), x)
RECURSIVE SortByVal(_)
SortByVal(s) == IF s = <<>> THEN <<>> ELSE InsertSorted(SortByVal(Tail(s)), s[1])
ByVal == SortByVal(ById)

Ordered(fam) == fam \in {"scan", "search"}       \* the walk order is part of the contract
Walk(fam) == IF fam = "search" THEN ByVal ELSE ById

RevSeq(s) == [i \in 1..Len(s) |-> s[Len(s) + 1 - i]]
Asc(ds, q) == SelectSeq(Walk(q.fam), LAMBDA i : Keep(ds, i, q))
Ids(ds, q) == IF q.desc THEN RevSeq(Asc(ds, q)) ELSE Asc(ds, q)     \* DESC only reverses
Count(ds, q) == Len(Ids(ds, q))                                     \* COUNT = number of items IDS returns

AsSet(s) == {s[i] : i \in 1..Len(s)}
=============================================================================
