---------------------------- MODULE ExpireTrace ----------------------------
(***************************************************************************)
(* Validation of runs recorded from real servers (code -> model) for C14.  *)
(*                                                                         *)
(* trace.ndjson holds, per scenario, the events in the order in which the  *)
(* server lock was held (hook `cmd.done`, `expire.del`, `expire.delhook`), *)
(* every one stamped with the server's own clock (microseconds) read under *)
(* that lock:                                                              *)
(*   reset  a new scenario on a fresh server                               *)
(*   cmd    a client command: op, arguments, reply, clock at its start tb  *)
(*          and at its end te (driver writes and the pollers' reads)       *)
(*   xdel   the sweeper applied `del key id` (its clock reading `clock`)   *)
(*   xhook  the sweeper applied `delhook` / `delchan name`                 *)
(*   attach a follower is started now                                      *)
(*   fread  a read served by the follower (merged in by clock)             *)
(*   end    appendonly.aof as read back, what a server restarted from a    *)
(*          copy of the data directory serves, what the follower serves,   *)
(*          the `del` notifications each channel delivered                 *)
(* `now` is bound to the logged clock.  The model state is advanced with   *)
(* the command semantics of Expire (Apply / Read / TTLRange); a deadline   *)
(* is the interval [tb + EX, te + EX].  The real sweeper drives expiry:    *)
(* the specification only judges it (MayExpire = NeverEarly, Overdue =     *)
(* Bounded with P = the coded period and Slack, has-a-deadline =           *)
(* NoStaleTimer, the log / restart / follower / fence = ExpiryIsLoggedDel, *)
(* TTLRange = TTLReports).  Every line gets its own verdict; a rejected    *)
(* scenario is printed as <<"REJ", json>> and skipped up to the next reset.*)
(***************************************************************************)
EXTENDS Expire, Json

CONSTANTS Lag,       \* a follower serves nothing later than Lag after the leader removed it
          Fresh      \* a restarted deadline of at least this duration cannot have passed when the restarted server is sampled

Trace == ndJsonDeserialize("trace.ndjson")

VARIABLES l,      \* next line
          dead,   \* the current scenario was rejected: skip to the next reset
          dels,   \* per channel: ids of the `del` notifications the fences must have delivered
          gone,   \* per object: [t |-> clock of the last removal on the leader, x |-> it was an expiry]
          dur,    \* per object: EX duration of the command that set the current deadline
          fdl,    \* per object: earliest instant at which the follower's OWN timer can fire
          fatt,   \* clock at which the follower was attached (-1: none)
          cnt     \* counters
tvars == <<now, st, due, stored, shadow, log, nops, ev, l, dead, dels, gone, dur, fdl, fatt, cnt>>

Rng(s) == {s[j] : j \in 1..Len(s)}
NormRep(r) == Rep(r.t, r.n, Rng(r.s))
Never == -1000000000
ObjMap(v) == [k \in Keys |-> [i \in Ids |-> v]]
Cnt0 == [writes |-> 0, reads |-> 0, ttls |-> 0, ttlsdl |-> 0, xdels |-> 0, xhooks |-> 0, freads |-> 0, ends |-> 0,
         rej |-> 0, scen |-> 0, latefol |-> 0, noop |-> 0, polls |-> 0, htt |-> 0, restarts |-> 0, followers |-> 0,
         dels |-> 0, notes |-> 0]

TInit == /\ now = 0 /\ st = EmptyS /\ due = 0 /\ stored = 0 /\ shadow = Proj(EmptyS) /\ log = <<>> /\ nops = 0 /\ ev = NoEv
         /\ l = 1 /\ dead = FALSE /\ dels = [nm \in ChanNames |-> <<>>]
         /\ gone = ObjMap([t |-> Never, x |-> FALSE]) /\ dur = ObjMap(0) /\ fdl = ObjMap(Never) /\ fatt = -1
         /\ cnt = Cnt0 /\ TLCSet(1, 1) /\ TLCSet(2, Cnt0)

OverdueAt(t) == {<<k, i>> \in Keys \X Ids : Overdue(st.cols[k][i], t)}
HOverdueAt(t) == {nm \in Names : Overdue(st.hooks[nm], t)}
BoundedWhy(t) == IF OverdueAt(t) # {} \/ HOverdueAt(t) # {} THEN {"Bounded"} ELSE {}

CmdOf(e) == Cmd(e.op, e.k, e.i, e.k2, e.nm, IF e.ex >= 0 THEN Dl(e.tb + e.ex, e.te + e.ex) ELSE NoDl)

ChansOn(k) == {nm \in ChanNames : st.hooks[nm].p /\ st.hooks[nm].k = k}
AddDel(k, i) == [nm \in ChanNames |-> IF nm \in ChansOn(k) THEN Append(dels[nm], i) ELSE dels[nm]]

\* per-object bookkeeping that travels with a renamed collection
Moved(m, k, k2, init) == [m EXCEPT ![k2] = m[k], ![k] = [i \in Ids |-> init]]

\* RENAME removes every object of the source key from that key, and every object of an overwritten target
LeftBy(k, k2, t) == [gone EXCEPT ![k]  = [i \in Ids |-> IF st.cols[k][i].p THEN [t |-> t, x |-> FALSE] ELSE gone[k][i]],
                                 ![k2] = [i \in Ids |-> IF st.cols[k2][i].p THEN [t |-> t, x |-> FALSE] ELSE gone[k2][i]]]

Rej(e, why, exp) == PrintT(<<"REJ", ToJson([sc |-> e.sc, line |-> l, why |-> why, exp |-> exp, e |-> e])>>)

Bump(f) == [cnt EXCEPT ![f] = @ + 1]
Same == UNCHANGED <<now, st, shadow, log, dels, gone, dur, fdl, fatt>>

-----------------------------------------------------------------------------
Reset(e) == /\ now' = 0 /\ st' = EmptyS /\ shadow' = Proj(EmptyS) /\ log' = <<>>
            /\ dels' = [nm \in ChanNames |-> <<>>]
            /\ gone' = ObjMap([t |-> Never, x |-> FALSE]) /\ dur' = ObjMap(0) /\ fdl' = ObjMap(Never) /\ fatt' = -1
            /\ dead' = FALSE /\ cnt' = Bump("scen")

Write(e) ==
  LET c == CmdOf(e)
      res == Apply(st, c)
      why == (IF NormRep(e.r) # res.r THEN {"reply"} ELSE {}) \cup BoundedWhy(e.tb)
      ok == why = {}
      isdel == c.op = "del" /\ res.r = RInt(1)
      notif == isdel /\ st.cols[c.k][c.i].s          \* fences concern spatial objects only (fence.go fenceMatch)
      setsdl == c.op \in {"set", "expire"} /\ res.lg # <<>>
      ren == c.op = "rename" /\ res.r = ROk /\ c.k # c.k2
  IN /\ IF ok THEN TRUE ELSE Rej(e, why, res.r)
     /\ dead' = ~ok
     /\ cnt' = IF ok THEN Bump("writes") ELSE Bump("rej")
     /\ IF ~ok THEN Same
        ELSE /\ now' = e.te /\ st' = res.S /\ log' = log \o res.lg /\ shadow' = ShFold(shadow, res.lg)
             /\ dels' = IF notif THEN AddDel(c.k, c.i) ELSE dels
             /\ gone' = IF isdel THEN [gone EXCEPT ![c.k][c.i] = [t |-> e.te, x |-> FALSE]]
                        ELSE IF ren THEN LeftBy(c.k, c.k2, e.te) ELSE gone
             /\ dur' = IF setsdl THEN [dur EXCEPT ![c.k][c.i] = IF e.ex >= 0 THEN e.ex ELSE 0]
                       ELSE IF ren THEN Moved(dur, c.k, c.k2, 0) ELSE dur
             /\ fdl' = IF setsdl THEN [fdl EXCEPT ![c.k][c.i] = IF e.ex >= 0 THEN e.tb + e.ex ELSE Never]
                       ELSE IF ren THEN Moved(fdl, c.k, c.k2, Never) ELSE fdl
             /\ UNCHANGED fatt

\* hooks / chans listings in JSON mode carry a ttl per entry
HookTTLsOK(e) == \A j \in 1..Len(e.ttls) :
                    LET x == e.ttls[j]
                        rng == IF x.nm \in Names THEN TTLRange(st.hooks[x.nm], e.tb, e.te) ELSE [lo |-> -2, hi |-> -2]
                    IN rng.lo <= x.ttl /\ x.ttl <= rng.hi

ReadEv(e) ==
  LET c == CmdOf(e)
      isttl == e.op = "ttl"
      rng == TTLRange(st.cols[e.k][e.i], e.tb, e.te)
      exp == IF isttl THEN Rep("ttl", rng.lo, {ToString(rng.hi)}) ELSE Read(st, c)
      bad == IF isttl THEN ~(e.r.t = "int" /\ rng.lo <= e.r.n /\ e.r.n <= rng.hi)
             ELSE NormRep(e.r) # exp \/ (e.op \in {"hooks", "chans"} /\ ~HookTTLsOK(e))
      why == (IF bad THEN {IF isttl \/ (NormRep(e.r) = exp) THEN "TTLReports" ELSE "read"} ELSE {}) \cup BoundedWhy(e.tb)
      ok == why = {}
  IN /\ IF ok THEN TRUE ELSE Rej(e, why, exp)
     /\ dead' = ~ok
     /\ cnt' = IF ~ok THEN Bump("rej")
               ELSE [cnt EXCEPT !.reads = @ + (IF isttl THEN 0 ELSE 1), !.ttls = @ + (IF isttl THEN 1 ELSE 0),
                                !.ttlsdl = @ + (IF isttl /\ rng.lo >= 0 THEN 1 ELSE 0),
                                !.htt = @ + (IF e.op \in {"hooks", "chans"} THEN Len(e.ttls) ELSE 0),
                                !.polls = @ + e.n]
     /\ now' = IF ok THEN e.te ELSE now
     /\ UNCHANGED <<st, shadow, log, dels, gone, dur, fdl, fatt>>

XDel(e) ==
  LET o == st.cols[e.k][e.i]
      why == (IF ~o.p THEN (IF e.upd THEN {"ExpiredAbsentObject"} ELSE {})
              ELSE IF ~e.upd THEN {"ExpiryNotApplied"}
              ELSE IF ~o.x THEN {"NoStaleTimer"}
              ELSE IF ~MayExpire(o, e.clock) THEN {"NeverEarly"}
              ELSE {}) \cup BoundedWhy(e.clock)
      ok == why = {}
      lg == <<L("del", e.k, e.i, FALSE)>>
  IN /\ IF ok THEN TRUE ELSE Rej(e, why, o)
     /\ dead' = ~ok
     /\ cnt' = IF ~ok THEN Bump("rej") ELSE IF o.p THEN Bump("xdels") ELSE Bump("noop")
     /\ IF ~ok \/ ~o.p THEN Same
        ELSE /\ now' = e.t /\ st' = ColDelete(st, e.k, e.i) /\ log' = log \o lg /\ shadow' = ShFold(shadow, lg)
             /\ dels' = IF o.s THEN AddDel(e.k, e.i) ELSE dels
             /\ gone' = [gone EXCEPT ![e.k][e.i] = [t |-> e.t, x |-> TRUE]]
             /\ UNCHANGED <<dur, fdl, fatt>>

XHook(e) ==
  LET h == st.hooks[e.nm]
      c == Cmd("delhook", "", "", "", e.nm, NoDl)
      why == (IF ~h.p THEN (IF e.upd THEN {"ExpiredAbsentObject"} ELSE {})
              ELSE IF ~e.upd THEN {"ExpiryNotApplied"}
              ELSE IF ~h.x THEN {"NoStaleTimer"}
              ELSE IF ~MayExpire(h, e.t) THEN {"NeverEarly"}
              ELSE {}) \cup BoundedWhy(e.t)
      ok == why = {}
      res == CmdDelHook(st, c)
  IN /\ IF ok THEN TRUE ELSE Rej(e, why, h)
     /\ dead' = ~ok
     /\ cnt' = IF ~ok THEN Bump("rej") ELSE IF h.p THEN Bump("xhooks") ELSE Bump("noop")
     /\ IF ~ok \/ ~h.p THEN Same
        ELSE /\ now' = e.t /\ st' = res.S /\ log' = log \o res.lg /\ shadow' = ShFold(shadow, res.lg)
             /\ UNCHANGED <<dels, gone, dur, fdl, fatt>>

\* the follower replays the leader's log from its start: every deadline restarts at the attach instant at the earliest
Attach(e) == /\ fatt' = e.t
             /\ fdl' = [k \in Keys |-> [i \in Ids |-> IF st.cols[k][i].p /\ st.cols[k][i].x THEN e.t + dur[k][i] ELSE Never]]
             /\ dead' = dead /\ cnt' = cnt
             /\ UNCHANGED <<now, st, shadow, log, dels, gone, dur>>

\* a follower may lag, but it serves nothing later than Lag after the leader removed it
FRead(e) ==
  LET o == st.cols[e.k][e.i]
      g == gone[e.k][e.i]
      bad == e.present /\ ~o.p /\ e.tb > g.t + Lag
      \* lost although the follower's own timer could not have fired yet: the leader's logged DEL did it
      late == ~e.present /\ ~o.p /\ g.x /\ fatt >= 0 /\ g.t > fatt /\ e.te < fdl[e.k][e.i]
  IN /\ IF bad THEN Rej(e, {"follower-serves-expired"}, g) ELSE TRUE
     /\ dead' = bad
     /\ cnt' = IF bad THEN Bump("rej") ELSE [cnt EXCEPT !.freads = @ + 1, !.latefol = @ + (IF late THEN 1 ELSE 0)]
     /\ Same

SetOfObjs(s) == {<<x.k, x.i, x.x>> : x \in Rng(s)}
NamesOfObjs(s) == {<<x.k, x.i>> : x \in Rng(s)}
ModelObjs == {<<k, i, st.cols[k][i].x>> : <<k, i>> \in Present(st)}
ModelHooks == {nm \in Names : st.hooks[nm].p}
AofNorm(s) == [j \in 1..Len(s) |-> L(s[j].op, s[j].k, s[j].i, s[j].x)]
DelsObserved(s) == [nm \in ChanNames |-> IF \E j \in 1..Len(s) : s[j].nm = nm
                                         THEN (CHOOSE x \in Rng(s) : x.nm = nm).ids ELSE <<>>]

(* A server restarted from the log replays `EX s` verbatim, so every deadline restarts; a follower applies  *)
(* a command after the leader did, so its own timer fires no earlier than the leader's deadline.  What such *)
(* a copy must serve when it is sampled: everything the leader serves whose (restarted / own) deadline      *)
(* cannot have passed yet, and nothing that the leader does not serve (its expiry DEL is in the log).       *)
RestartMust == {<<k, i>> \in Present(st) : ~st.cols[k][i].x \/ dur[k][i] >= Fresh}
FollowerMust(tf) == {<<k, i>> \in Present(st) : ~st.cols[k][i].x \/ st.cols[k][i].lo > tf}
CopyOK(smp, must, hmust) ==
  /\ must \subseteq NamesOfObjs(smp.objs)
  /\ NamesOfObjs(smp.objs) \subseteq Present(st)
  /\ hmust \subseteq Rng(smp.hooks)
  /\ Rng(smp.hooks) \subseteq ModelHooks
RestartOK(smp) == /\ CopyOK(smp, RestartMust, {nm \in Names : st.hooks[nm].p /\ ~st.hooks[nm].x})
                  /\ \A x \in Rng(smp.objs) : <<x.k, x.i>> \in RestartMust => x.x = st.cols[x.k][x.i].x
FollowerOK(smp, tf) == CopyOK(smp, FollowerMust(tf), {nm \in Names : st.hooks[nm].p /\ (~st.hooks[nm].x \/ st.hooks[nm].lo > tf)})

End(e) ==
  LET why == BoundedWhy(e.t)
             \cup (IF AofNorm(e.aof) # log THEN {"ExpiryIsLoggedDel-log"} ELSE {})
             \cup (IF shadow # Proj(st) THEN {"ExpiryIsLoggedDel-replay"} ELSE {})
             \cup (IF e.hasr /\ ~RestartOK(e.restart) THEN {"ExpiryIsLoggedDel-restart"} ELSE {})
             \cup (IF e.hasf /\ ~FollowerOK(e.follower, e.tf) THEN {"ExpiryIsLoggedDel-follower"} ELSE {})
             \cup (IF e.hasd /\ DelsObserved(e.dels) # dels THEN {"ExpiryIsLoggedDel-fence"} ELSE {})
      ok == why = {}
  IN /\ IF ok THEN TRUE ELSE Rej(e, why, [log |-> log, objs |-> ModelObjs, hooks |-> ModelHooks, dels |-> dels])
     /\ dead' = ~ok
     /\ cnt' = IF ok THEN [cnt EXCEPT !.ends = @ + 1, !.restarts = @ + (IF e.hasr THEN 1 ELSE 0),
                                      !.followers = @ + (IF e.hasf THEN 1 ELSE 0),
                                      !.dels = @ + Len(log) - Len(SelectSeq(log, LAMBDA r : r.op # "del")),
                                      !.notes = @ + Cardinality({<<nm, j>> \in ChanNames \X (1..64) : j <= Len(dels[nm])})]
               ELSE Bump("rej")
     /\ Same

Skip == dead' = dead /\ cnt' = cnt /\ Same

Consume ==
  /\ l <= Len(Trace)
  /\ LET e == Trace[l] IN
       CASE e.e = "reset" -> Reset(e)
         [] dead -> Skip
         [] e.e = "cmd" /\ e.op \in WriteOps -> Write(e)
         [] e.e = "cmd" -> ReadEv(e)
         [] e.e = "xdel" -> XDel(e)
         [] e.e = "xhook" -> XHook(e)
         [] e.e = "attach" -> Attach(e)
         [] e.e = "fread" -> FRead(e)
         [] e.e = "end" -> End(e)
  /\ l' = l + 1
  /\ TLCSet(1, l') /\ TLCSet(2, cnt')
  /\ UNCHANGED <<due, stored, nops, ev>>

TraceSpec == TInit /\ [][Consume]_tvars

\* the model state driven by a recorded run keeps the structural invariants of the design
ModelOK == NoStaleTimer

\* the whole file was judged (POSTCONDITION, -workers 1)
Consumed == /\ TLCGet(1) = Len(Trace) + 1
            /\ PrintT(<<"SUM", ToJson([lines |-> Len(Trace), cnt |-> TLCGet(2)])>>)
=============================================================================
