----------------------------- MODULE SpatialGen -----------------------------
(* Behaviour generator for Spatial (model -> code).  The history is hidden  *)
(* from the VIEW, so TLC's breadth-first search visits every dataset once   *)
(* and the action property Emit prints one shortest behaviour per           *)
(* transition of the reachable graph: every insert, overwrite (same kind,   *)
(* other kind, same or other rectangle), move, delete, rename and drop      *)
(* from every dataset, together with the expected replies of WITHIN and     *)
(* INTERSECTS after its last step for EVERY area of the grid (res[j]        *)
(* belongs to AreaSeq[j]; the earlier steps are the last steps of other     *)
(* behaviours).                                                             *)
(* The table of areas and the CLIPBY table (index of Clip(q, c)) are        *)
(* printed once.                                                            *)
EXTENDS Spatial, Json

ClipTable == [q \in 1..NAreas |-> [c \in 1..NAreas |-> AreaIdx(Clip(AreaSeq[q], AreaSeq[c]))]]
ASSUME PrintT(<<"AREAS", ToJson([areas |-> AreaSeq, clip |-> ClipTable, nids |-> NIds, nx |-> NX, ny |-> NY])>>)

Emit == [][PrintT(<<"TR", ToJson([h |-> hist', res |-> <<ResTable(spatial')>>])>>)]_vars
=============================================================================
