------------------------------ MODULE JsonPath ------------------------------
(***************************************************************************)
(* JSET / JDEL / JGET with structured paths on one JSON document           *)
(* (internal/server/json.go; the document is a string object).  Keyspace   *)
(* models flat members only; this module adds what the path syntax does    *)
(* inside a document:                                                      *)
(*   a        a scalar member                                              *)
(*   l        an array: l.i addresses element i, l.-1 the position behind  *)
(*            the last element for JSET (append) and the LAST element for  *)
(*            JDEL; JSET l.i beyond the end pads with null; JGET knows no  *)
(*            -1 (nil); a null element reads as the empty string           *)
(*   o        an object with members x, y (o.x); deleting its last member  *)
(*            leaves {}, deleting the last member of the document leaves   *)
(*            the object with the document {}                              *)
(* C01: replies and the document read back are those of this plain value   *)
(* model; a command that answers 0 / nil / an error changes nothing        *)
(* (NegativeChangesNothing); JDEL answers 1 exactly when the addressed     *)
(* value existed, and then it is gone (JdelMeansGone).                     *)
(* JdelTestsWith: how JDEL decides whether the path exists                 *)
(*   "write-path"  as coded: by deleting and comparing                     *)
(*   "read-path"   by looking the path up with the READ syntax first (a    *)
(*                 well-meant short cut): the read syntax has no -1, the   *)
(*                 last element is never deleted - JdelMeansGone refuted   *)
(***************************************************************************)
EXTENDS Integers, Sequences, TLC

CONSTANTS MaxLen, JdelTestsWith

Vals == {"n1", "sx"}           \* JSET ... 1 (stored as the number 1), JSET ... x (stored as the string "x")
None == "none"
VARIABLES ex,                  \* the object exists
          a,                   \* Vals or None
          hasl, l,             \* the array member and its elements (Vals or "null")
          haso, ox, oy,        \* the object member and its members
          hist
vars == <<ex, a, hasl, l, haso, ox, oy, hist>>
Doc == [ex |-> ex, a |-> a, hasl |-> hasl, l |-> l, haso |-> haso, ox |-> ox, oy |-> oy]
NoDoc == [ex |-> FALSE, a |-> None, hasl |-> FALSE, l |-> <<>>, haso |-> FALSE, ox |-> None, oy |-> None]

Idx(p) == CASE p = "l.0" -> 0 [] p = "l.1" -> 1 [] p = "l.2" -> 2 [] OTHER -> -1
SetPaths == {"a", "l.0", "l.1", "l.2", "l.-1", "o.x", "o.y"}
AllPaths == SetPaths \cup {"l", "o", "zz"}

RECURSIVE Nulls(_)
Nulls(n) == IF n <= 0 THEN <<>> ELSE <<"null">> \o Nulls(n - 1)
DelAt(s, i) == SubSeq(s, 1, i) \o SubSeq(s, i + 2, Len(s))        \* i is 0-based

\* ---- JSET
Jset(d, p, v) ==
  LET e == [d EXCEPT !.ex = TRUE] IN
  CASE p = "a"    -> [e EXCEPT !.a = v]
    [] p = "o.x"  -> [e EXCEPT !.haso = TRUE, !.ox = v]
    [] p = "o.y"  -> [e EXCEPT !.haso = TRUE, !.oy = v]
    [] p = "l.-1" -> [e EXCEPT !.hasl = TRUE, !.l = Append(d.l, v)]
    [] OTHER      -> LET i == Idx(p) IN
                     [e EXCEPT !.hasl = TRUE,
                               !.l = IF i < Len(d.l) THEN [d.l EXCEPT ![i + 1] = v]
                                     ELSE d.l \o Nulls(i - Len(d.l)) \o <<v>>]
\* ---- does the path address a value (write syntax / read syntax)
HasW(d, p) ==
  d.ex /\ CASE p = "a" -> d.a # None [] p = "l" -> d.hasl [] p = "o" -> d.haso
            [] p = "o.x" -> d.haso /\ d.ox # None [] p = "o.y" -> d.haso /\ d.oy # None
            [] p = "l.-1" -> d.hasl /\ Len(d.l) > 0
            [] p = "zz" -> FALSE
            [] OTHER -> d.hasl /\ Idx(p) < Len(d.l)
HasR(d, p) == IF p = "l.-1" THEN FALSE ELSE HasW(d, p)
\* ---- JDEL: [d, r]
Jdel(d, p) ==
  IF ~(IF JdelTestsWith = "read-path" THEN HasR(d, p) ELSE HasW(d, p)) THEN [d |-> d, r |-> "zero"]
  ELSE [r |-> "one",
        d |-> CASE p = "a" -> [d EXCEPT !.a = None]
                [] p = "l" -> [d EXCEPT !.hasl = FALSE, !.l = <<>>]
                [] p = "o" -> [d EXCEPT !.haso = FALSE, !.ox = None, !.oy = None]
                [] p = "o.x" -> [d EXCEPT !.ox = None]
                [] p = "o.y" -> [d EXCEPT !.oy = None]
                [] p = "l.-1" -> [d EXCEPT !.l = SubSeq(d.l, 1, Len(d.l) - 1)]
                [] OTHER -> [d EXCEPT !.l = DelAt(d.l, Idx(p))]]
\* ---- JGET: "nil" | "null" (reads as the empty string) | a value | "json" (the raw member: compared as JSON)
Jget(d, p) ==
  IF ~HasR(d, p) THEN "nil"
  ELSE CASE p = "a" -> d.a [] p = "o.x" -> d.ox [] p = "o.y" -> d.oy
         [] p \in {"l", "o"} -> "json"
         [] OTHER -> d.l[Idx(p) + 1]

Init == /\ ex = FALSE /\ a = None /\ hasl = FALSE /\ l = <<>> /\ haso = FALSE /\ ox = None /\ oy = None /\ hist = <<>>
Become(d) == /\ ex' = d.ex /\ a' = d.a /\ hasl' = d.hasl /\ l' = d.l /\ haso' = d.haso /\ ox' = d.ox /\ oy' = d.oy
DoSet(p, v) == /\ (p = "l.-1" => Len(l) < MaxLen) /\ (Idx(p) >= 0 => Idx(p) < MaxLen)
               /\ LET d == Jset(Doc, p, v) IN
                  Become(d) /\ hist' = Append(hist, [op |-> "jset", p |-> p, v |-> v, r |-> "ok", post |-> d])
DoDel(p) == LET x == Jdel(Doc, p) IN
            Become(x.d) /\ hist' = Append(hist, [op |-> "jdel", p |-> p, v |-> "", r |-> x.r, post |-> x.d])
DoGet(p) == /\ UNCHANGED <<ex, a, hasl, l, haso, ox, oy>>
            /\ hist' = Append(hist, [op |-> "jget", p |-> p, v |-> "", r |-> Jget(Doc, p), post |-> Doc])
Next == \/ \E p \in SetPaths, v \in Vals : DoSet(p, v)
        \/ \E p \in AllPaths : DoDel(p) \/ DoGet(p)
Spec == Init /\ [][Next]_vars
View == <<ex, a, hasl, l, haso, ox, oy>>

\* ---- C01 on the model
NegativeChangesNothing ==
  [][\A p \in AllPaths : (DoDel(p) /\ hist'[Len(hist')].r = "zero") => View' = View]_vars
\* JDEL answers 1 exactly when the path addressed a value, and the document is smaller by exactly that value
JdelMeansGone ==
  [][\A p \in AllPaths : DoDel(p) =>
       /\ (hist'[Len(hist')].r = "one") = HasW(Doc, p)
       /\ (p = "l.-1" /\ HasW(Doc, p)) => Len(l') = Len(l) - 1]_vars
=============================================================================
