----------------------------- MODULE SpatialSim -----------------------------
(* Random behaviours of Spatial for `tlc -simulate': one random operation   *)
(* per step, built with RandomElement so that larger grids and more ids     *)
(* cost nothing; each behaviour is printed once, when it has MaxHist steps. *)
(* Overwrites are biased towards the interesting ones: another kind with    *)
(* the SAME rectangle, the same kind moved, spatial <-> string / empty.     *)
(* TLC checks the invariants of Spatial along every behaviour it follows.   *)
EXTENDS Spatial, Json

VARIABLES done,
          rs       \* rs[n]: the expected replies (ResTable) after step n
svars == <<objs, spatial, at, hist, done, rs>>

ClipTable == [q \in 1..NAreas |-> [c \in 1..NAreas |-> AreaIdx(Clip(AreaSeq[q], AreaSeq[c]))]]
ASSUME PrintT(<<"AREAS", ToJson([areas |-> AreaSeq, clip |-> ClipTable, nids |-> NIds, nx |-> NX, ny |-> NY])>>)

SimInit == Init /\ done = FALSE /\ rs = <<>>

RE(S) == RandomElement(S)
\* another object with the same rectangle (or the object itself when there is none)
SameBox(o) == LET S == {v \in ObjVals : Indexed(v) /\ Indexed(o) /\ v # o /\
                                         v.x1 = o.x1 /\ v.y1 = o.y1 /\ v.x2 = o.x2 /\ v.y2 = o.y2}
              IN IF S = {} THEN o ELSE RE(S)
\* the random choices are passed as operator arguments: TLC evaluates an argument once per call
Pick(i, o, d) ==
  CASE d = 1 /\ objs[i] # NoObj                -> Del(i)
    [] d = 2 /\ WithKeys /\ Present(objs) # {} -> Rename
    [] d = 3 /\ WithKeys /\ Present(objs) # {} /\ Len(hist) % 7 = 6 -> Drop
    [] d \in {4, 5} /\ objs[i] # NoObj         -> Set(i, SameBox(objs[i]))
    [] d = 6                                   -> Set(i, RE({StrObj, EmptyObj}))
    [] OTHER                                   -> Set(i, o)
SimStep == /\ Len(hist) < MaxHist
           /\ Pick(RE(Ids), RE(ObjVals), RE(1..16))
           /\ rs' = Append(rs, ResTable(spatial'))
           /\ UNCHANGED done
Finish == /\ Len(hist) = MaxHist /\ ~done /\ done' = TRUE
          /\ UNCHANGED <<vars, rs>>
          /\ PrintT(<<"TR", ToJson([h |-> hist, res |-> rs])>>)
SimNext == SimStep \/ Finish
SimSpec == SimInit /\ [][SimNext]_svars
=============================================================================
