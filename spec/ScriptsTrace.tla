---------------------------- MODULE ScriptsTrace ----------------------------
(* Judges the records of the sandbox probe: every "env" record lists what is  *)
(* reachable from the globals of one idle pooled interpreter (enumerated from  *)
(* Go: scripts have no pairs/next); it must equal ScriptEnv!AllowList exactly,   *)
(* before and after the adversarial scripts.  One line per record is printed.  *)
EXTENDS ScriptEnv, Json, TLC, Sequences, Integers

Trace == ndJsonDeserialize("sandbox.ndjson")
VARIABLE l
Range(s) == {s[i] : i \in 1..Len(s)}
TInit == l = 1
TNext == /\ l <= Len(Trace)
         /\ LET r == Trace[l] IN
            IF r.e = "env"
            THEN LET names == Range(r.names) IN
                 PrintT(<<"ENV", ToJson([l |-> l, phase |-> r.phase, state |-> r.state,
                                         extra |-> names \ AllowList, missing |-> AllowList \ names])>>)
            ELSE TRUE
         /\ l' = l + 1 /\ TLCSet(1, l')
TSpec == TInit /\ [][TNext]_l
Accepted == TLCGet(1) = Len(Trace) + 1
=============================================================================
