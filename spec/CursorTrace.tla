---------------------------- MODULE CursorTrace ----------------------------
(***************************************************************************)
(* Validation of paging runs recorded from the real server (code -> model). *)
(*                                                                         *)
(* trace.ndjson holds one line per (dataset, query):                        *)
(*   [id    |-> line identifier of the harness,                             *)
(*    fam   |-> "scan" | "search" | "within" | "intersects" | "nearby",    *)
(*    n     |-> number of objects in the collection,                        *)
(*    u     |-> items of the reply to the query with LIMIT n+1,             *)
(*    ucur  |-> the cursor of that reply,                                   *)
(*    runs  |-> << [limit, trunc, pages |-> << [items, next] ... >>] >> ]   *)
(* An item is the harness' rendering of one element of the reply as a      *)
(* string; cursors are opaque numbers.  The judgement is the statement of   *)
(* C11 as formalised by Cursor!Satisfies; nothing else is demanded (in      *)
(* particular not the value of a cursor, and not that a full last reply    *)
(* carries cursor 0).  The trace is consumed line by line; a rejected run   *)
(* is printed as <<"REJ", json>> (with Cursor!Defects as the reason) and    *)
(* counted, it never blocks: every line gets its own verdict.               *)
(***************************************************************************)
EXTENDS Integers, Sequences, FiniteSets, Json, TLC

R == INSTANCE Cursor WITH MaxLen <- 0, MaxLimit <- 1, iter <- <<>>, keep <- <<>>, stop <- 1, limit <- 1,
                          cursor <- 0, out <- <<>>, npages <- 0, done <- FALSE

Trace == ndJsonDeserialize("trace.ndjson")

VARIABLES l,       \* next line
          nruns,   \* paging runs judged so far
          nrej     \* paging runs rejected so far
vars == <<l, nruns, nrej>>

\* the replies of one run must really be a paging run: every reply but the last carries a cursor
WellFormed(run) == /\ Len(run.pages) >= 1
                   /\ \A j \in 1..(Len(run.pages) - 1) : run.pages[j].next # 0
                   /\ (run.trunc \/ run.pages[Len(run.pages)].next = 0)

\* the unlimited query: LIMIT n+1 on a collection of n objects cannot hit its limit
UnlimitedOK(rec) == rec.ucur = 0 /\ Len(rec.u) <= rec.n

RunOK(rec, run) == /\ WellFormed(run)
                   /\ run.limit >= 1
                   /\ R!Satisfies(rec.u, run.pages, run.limit, run.trunc)

Why(rec, run) == IF ~WellFormed(run) THEN {"malformed-run"}
                 ELSE R!Defects(rec.u, run.pages, run.limit, run.trunc)

Rejected(rec) == {r \in 1..Len(rec.runs) : ~RunOK(rec, rec.runs[r])}

\* (no disjunction here: TLC would split the action and evaluate PrintT of both branches)
Report(rec, bad) ==
  /\ \A r \in bad : PrintT(<<"REJ", ToJson([line |-> l, id |-> rec.id, fam |-> rec.fam, limit |-> rec.runs[r].limit,
                                            why |-> Why(rec, rec.runs[r])])>>)
  /\ IF UnlimitedOK(rec) THEN TRUE
     ELSE PrintT(<<"REJ", ToJson([line |-> l, id |-> rec.id, fam |-> rec.fam, limit |-> 0,
                                  why |-> {"unlimited-reply-has-cursor"}])>>)

Init == l = 1 /\ nruns = 0 /\ nrej = 0 /\ TLCSet(1, 1) /\ TLCSet(2, 0) /\ TLCSet(3, 0)

Consume == /\ l <= Len(Trace)
           /\ LET rec == Trace[l]
                  bad == Rejected(rec) IN
              /\ Report(rec, bad)
              /\ nruns' = nruns + Len(rec.runs) + 1
              /\ nrej' = nrej + Cardinality(bad) + (IF UnlimitedOK(rec) THEN 0 ELSE 1)
           /\ l' = l + 1
           /\ TLCSet(1, l')
           /\ TLCSet(2, nruns')
           /\ TLCSet(3, nrej')

Spec == Init /\ [][Consume]_vars

\* the whole file was judged (POSTCONDITION, -workers 1); the counts are printed for the check
Consumed == /\ TLCGet(1) = Len(Trace) + 1
            /\ PrintT(<<"SUM", ToJson([lines |-> Len(Trace), runs |-> TLCGet(2), rejected |-> TLCGet(3)])>>)
=============================================================================
