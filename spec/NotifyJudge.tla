---------------------------- MODULE NotifyJudge ----------------------------
(* The judgement of what one receiver of notifications (a subscriber        *)
(* connection, a webhook endpoint, a live fence connection) got, stated on  *)
(* things a client can observe.  Notify proves it for every interleaving of *)
(* the design (there the precedence relations are state), NotifyTrace       *)
(* evaluates the very same operators on streams recorded from the real      *)
(* server (there the relations are computed from tickets).                  *)
(*                                                                          *)
(* An item is a record with at least                                        *)
(*   c, i : the connection and the index of the operation that caused it    *)
(*   w    : the position of the causing write in the log (0: client PUBLISH)*)
(*   d    : detect code (msgDetectCode weight; 0: client PUBLISH)           *)
(*   ch   : channel / fence index                                           *)
EXTENDS Integers, Sequences, FiniteSets

SeqRange(s) == {s[i] : i \in 1..Len(s)}

\*   st     : the stream, a sequence of items, in the order received
\*   elig   : the items the receiver may get at all ("exactly the notifications generated")
\*   Before(a, b) : item a has to precede item b when both are there ("in the order the writes were applied")
StreamSafe(st, elig, Before(_, _)) ==
  /\ \A i \in 1..Len(st) : st[i] \in elig
  /\ \A i, j \in 1..Len(st) : i < j => (st[i] # st[j] /\ ~Before(st[j], st[i]))      \* each once, in order
\*   must   : the items the receiver has to get ("nothing lost"; judged when everything has quiesced)
StreamComplete(st, must) == must \subseteq SeqRange(st)

\* two messages of writes: log order, then the order of aof.go sortMsgs within one write (detect weight, fence name)
GeoBefore(a, b) == a.w > 0 /\ b.w > 0 /\ (a.w < b.w \/ (a.w = b.w /\ (a.d < b.d \/ (a.d = b.d /\ a.ch < b.ch))))

\* the same, as a list of reasons (for reports)
Defects(st, elig, must, Before(_, _)) ==
     {[why |-> "not-generated-for-this-receiver", i |-> i, j |-> 0] : i \in {x \in 1..Len(st) : st[x] \notin elig}}
  \cup {[why |-> "duplicate", i |-> p[1], j |-> p[2]] :
          p \in {pp \in (1..Len(st)) \X (1..Len(st)) : pp[1] < pp[2] /\ st[pp[1]] = st[pp[2]]}}
  \cup {[why |-> "out-of-order", i |-> p[1], j |-> p[2]] :
          p \in {pp \in (1..Len(st)) \X (1..Len(st)) : pp[1] < pp[2] /\ st[pp[1]] # st[pp[2]] /\ Before(st[pp[2]], st[pp[1]])}}
  \cup (IF must \subseteq SeqRange(st) THEN {} ELSE {[why |-> "lost", i |-> Cardinality(must \ SeqRange(st)), j |-> 0]})
=============================================================================
