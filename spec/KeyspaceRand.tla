---------------------------- MODULE KeyspaceRand ----------------------------
(* Random command construction for simulation (no variables): one random     *)
(* command per operation, built with RandomElement so that no command set is *)
(* ever enumerated.  Shared by KeyspaceSim, AOF and the other simulators.    *)
EXTENDS Keyspace

CONSTANT WithHooks

\* ---- random generation for -simulate: one random command per operation, no set enumeration ----
RE(S) == RandomElement(S)
RandFu(min) == LET n == RE(min..2) IN [j \in 1..n |-> <<RE(FNames), RE(FValSet)>>]
SimCmd(op) ==
  CASE op = "set"      -> [op |-> "set", k |-> RE(Keys), id |-> RE(Ids), g |-> RE(GeoSet), fu |-> RandFu(0),
                           ex |-> RE(BOOLEAN), cond |-> RE({"-", "-", "nx", "xx"})]
    [] op = "fset"     -> [op |-> "fset", k |-> RE(Keys), id |-> RE(Ids), xx |-> RE(BOOLEAN), fu |-> RandFu(1)]
    [] op = "del"      -> [op |-> "del", k |-> RE(Keys), id |-> RE(Ids), e404 |-> RE(BOOLEAN)]
    [] op = "pdel"     -> [op |-> "pdel", k |-> RE(Keys), p |-> RE(PatSet)]
    [] op = "drop"     -> [op |-> "drop", k |-> RE(Keys)]
    [] op = "rename"   -> [op |-> "rename", k |-> RE(Keys), k2 |-> RE(Keys), nx |-> RE(BOOLEAN)]
    [] op = "flushdb"  -> [op |-> "flushdb"]
    [] op \in {"expire", "persist", "ttl", "exists", "expirenow"} -> [op |-> op, k |-> RE(Keys), id |-> RE(Ids)]
    [] op = "get"      -> [op |-> "get", k |-> RE(Keys), id |-> RE(Ids), wf |-> RE(BOOLEAN)]
    [] op \in {"fexists", "fget"} -> [op |-> op, k |-> RE(Keys), id |-> RE(Ids), n |-> RE(FNames)]
    [] op = "type"     -> [op |-> "type", k |-> RE(Keys)]
    [] op = "keys"     -> [op |-> "keys", p |-> RE(PatSet)]
    [] op = "scan"     -> [op |-> "scan", k |-> RE(Keys), p |-> RE(PatSet), desc |-> RE(BOOLEAN),
                           lim |-> RE(0..(Len(IdSeq) + 1)), out |-> RE({"ids", "count"})]
    [] op = "jset"     -> [op |-> "jset", k |-> RE(Keys), id |-> RE(Ids), m |-> RE({"m:a", "m:b"}), v |-> RE({"j:1", "j:x"})]
    [] op = "jdel"     -> [op |-> "jdel", k |-> RE(Keys), id |-> RE(Ids), m |-> RE({"m:a", "m:b"})]
    [] op = "jget"     -> [op |-> "jget", k |-> RE(Keys), id |-> RE(Ids), m |-> RE({"m:a", "m:b", "whole"})]
    [] op = "sethook"  -> [op |-> "sethook", h |-> RE(HNames), k |-> RE(Keys), chan |-> RE(BOOLEAN)]
    [] op = "delhook"  -> [op |-> "delhook", h |-> RE(HNames), chan |-> RE(BOOLEAN)]
    [] op = "pdelhook" -> [op |-> "pdelhook", p |-> RE(PatSet), chan |-> RE(BOOLEAN)]
    [] op = "hooks"    -> [op |-> "hooks", p |-> RE(PatSet), chan |-> RE(BOOLEAN)]
SimOps == <<"set", "set", "set", "set", "set", "set", "fset", "fset", "fset", "del", "del", "pdel", "drop",
            "rename", "rename", "expire", "persist", "ttl", "exists", "get", "get", "get", "fexists", "fget",
            "type", "keys", "scan", "scan", "jset", "jset", "jdel", "jget">>
           \o (IF WithHooks THEN <<"sethook", "sethook", "delhook", "pdelhook", "hooks">> ELSE <<>>)
           \o <<"flushdb">>
=============================================================================
