------------------------------ MODULE ProtoGen ------------------------------
(* Segmentation machine for Proto (C16, first sentence).                    *)
(*                                                                          *)
(* An initial state chooses a stream: the client encoding of 1..MaxFrames   *)
(* frames (every syntax x every command of the alphabet; an HTTP request    *)
(* only last, the server closes after it).  Seg(n) delivers the next n      *)
(* bytes as one TCP segment.  Because n is arbitrary, the reachable graph   *)
(* contains EVERY segmentation of every stream (2-way, k-way, byte at a     *)
(* time); the state is (stream, pos, connection).                           *)
(*                                                                          *)
(*   SplitInvariant : the connection after any segmentation of the first    *)
(*                    pos bytes equals the connection after receiving them  *)
(*                    in one piece (carry-over buffer, replies, flags)      *)
(*   OnePerCommand  : when everything is delivered there is exactly one     *)
(*                    reply per frame, in order, each to the arguments that *)
(*                    were encoded, in the transport of its syntax, and     *)
(*                    nothing is left in the carry-over buffers             *)
(*                                                                          *)
(* hist (segment lengths) is hidden from the VIEW; Emit prints one          *)
(* behaviour per transition whose history has at most EmitChunks segments:  *)
(* the shortest way into (stream, pos) is one segment, so these are all     *)
(* 2-way cuts (pos + n = length) and all 3-way cuts (the harness sends the  *)
(* remaining bytes as the last segment).                                    *)
EXTENDS Proto, Json

CONSTANTS
  Kinds,        \* set of syntaxes: subset of {"resp","telnet","tellf","native","hget","hpost"}
  Cmds,         \* set of commands (token sequences)
  MaxFrames,    \* frames per stream
  EmitChunks,   \* print behaviours with at most this many explicit segments (0: none)
  Ids           \* id tokens of the store

VARIABLES frames, stream, pos, conn, hist
vars == <<frames, stream, pos, conn, hist>>

AllFrames == {f \in [k : Kinds, a : Cmds] : Encodable(f)}
\* HTTP only as the last frame
FrameSeqs(n) == {fs \in [1..n -> AllFrames] : \A i \in 1..(n - 1) : ~IsHTTP(fs[i])}
Concat(fs) == Flat([i \in 1..Len(fs) |-> Enc(fs[i])])

EmptyStore == [i \in Ids |-> ""]
\* what TLC expects the server to answer to the stream (one piece): number, order, transport, encoding, content class
Outcome(c) == [replies |-> Replies(c.out, 1, EmptyStore, <<>>), closed |-> c.closed, carry |-> Len(c.carry), crashed |-> c.crashed]
Expected(bytes) == Outcome(RecvAll(bytes))
\* the same under the as-coded sniffing rule: used only to label a disagreement with the deviation that explains it
AsCoded(bytes) == Outcome(RecvS(InitConn, bytes, "crlf"))

Init == /\ \E n \in 1..MaxFrames : \E fs \in FrameSeqs(n) : frames = fs /\ stream = Concat(fs)
        /\ pos = 0 /\ conn = InitConn /\ hist = <<>>

Seg(n) == /\ conn' = Recv(conn, Sub(stream, pos + 1, pos + n))
          /\ pos' = pos + n
          /\ hist' = Append(hist, n)
          /\ UNCHANGED <<frames, stream>>

Next == \E n \in 1..(Len(stream) - pos) : Seg(n)
Spec == Init /\ [][Next]_vars
View == <<frames, pos, conn>>

SplitInvariant == conn = RecvAll(Sub(stream, 1, pos))

OnePerCommand ==
  pos = Len(stream) =>
    /\ Len(conn.out) = Len(frames)
    /\ \A i \in 1..Len(frames) :
         /\ conn.out[i].x = "cmd"
         /\ conn.out[i].args = Bytes(frames[i].a)
         /\ conn.out[i].t = Transport(KindOf(frames[i]))
    /\ conn.carry = <<>> /\ conn.inb = <<>>
    /\ ~conn.crashed
    /\ conn.closed = IsHTTP(frames[Len(frames)])

\* the carry-over buffer never holds a complete request
CarryIncomplete == /\ conn.carry # <<>> /\ ~conn.closed => ParseOne(conn.carry).st = "inc"
                   /\ ~conn.closed => conn.inb = <<>>      \* nothing that was read waits for the next read

\* the expected replies are printed once per stream (with the unsplit behaviour), the other lines carry the cut only
Emit == [][Len(hist') <= EmitChunks =>
            PrintT(<<"TR", ToJson(IF hist' = <<Len(stream)>>
                                  THEN [s |-> stream, f |-> frames, cuts |-> hist', exp |-> Expected(stream), dev |-> AsCoded(stream)]
                                  ELSE [s |-> stream, cuts |-> hist'])>>)]_vars
=============================================================================
