------------------------------- MODULE Cursor -------------------------------
(***************************************************************************)
(* Cursor pagination of SCAN / SEARCH / WITHIN / INTERSECTS / NEARBY (C11). *)
(*                                                                         *)
(* The code (internal/collection/collection.go Scan, ScanRange,            *)
(* SearchValues, SearchValuesRange, Within, Intersects, Nearby + nextStep; *)
(* internal/server/scanner.go Offset/Step, pushObject, writeFoot) walks an *)
(* index in a fixed order, the sequence `iter`.  A query with CURSOR c and *)
(* LIMIT n                                                                  *)
(*   - counts every entry it passes (count++), skips the first c of them   *)
(*     (cursor.Step(c) accounts for them at once),                          *)
(*   - visits the following entries one by one (cursor.Step(1) each),       *)
(*   - an entry may end the walk by itself (end of a MATCH range, NEARBY    *)
(*     radius exceeded): position `stop`,                                   *)
(*   - an entry that passes the filters (`keep`: MATCH glob, WHERE, WHEREIN,*)
(*     WHEREEVAL, the geometric test) is appended to the reply;             *)
(*     when the reply holds n items the walk ends with hitLimit,            *)
(*   - the reply carries  cursor = numberIters if hitLimit, else 0.         *)
(*                                                                         *)
(* Walk/Page transcribe that rule operationally; PageD is the declarative  *)
(* reading ("the first n kept positions after c; next = the last visited   *)
(* position if n was reached, else 0").  The state machine pages one query *)
(* until the cursor is 0; the paging theorem of C11 is the conjunction of  *)
(* the invariants and action properties below, checked by TLC for every    *)
(* length, mask, stop position and limit within the bound.                  *)
(***************************************************************************)
EXTENDS Integers, Sequences, FiniteSets, TLC

CONSTANTS MaxLen,      \* longest index walk
          MaxLimit     \* largest LIMIT (>= MaxLen + 1: "unlimited" is included)

-----------------------------------------------------------------------------
(* The counting rule.                                                       *)
(*   iter  : sequence of items, the order in which the index is walked     *)
(*   keep  : sequence of BOOLEAN, keep[p] <=> iter[p] passes every filter   *)
(*   stop  : 1..Len(iter)+1, the walk ends by itself when it reaches this   *)
(*           position (Len(iter)+1: it runs to the end of the index)        *)
(*   pos   : number of entries passed so far (scanWriter.numberIters)       *)
(*   acc   : items collected so far (scanWriter.numberItems = Len(acc))     *)
RECURSIVE Walk(_, _, _, _, _, _)
Walk(iter, keep, stop, limit, pos, acc) ==
  IF pos >= Len(iter) THEN [items |-> acc, iters |-> pos, hit |-> FALSE]      \* index exhausted
  ELSE LET p == pos + 1 IN                                                   \* nextStep: Step(1)
       IF p >= stop THEN [items |-> acc, iters |-> p, hit |-> FALSE]         \* iterator returns false, no hitLimit
       ELSE IF keep[p]
            THEN LET acc2 == Append(acc, iter[p]) IN                         \* pushObject
                 IF Len(acc2) = limit
                 THEN [items |-> acc2, iters |-> p, hit |-> TRUE]            \* numberItems == limit
                 ELSE Walk(iter, keep, stop, limit, p, acc2)
            ELSE Walk(iter, keep, stop, limit, p, acc)

\* one reply: the items and the cursor of writeFoot
Page(iter, keep, stop, c, n) ==
  LET w == Walk(iter, keep, stop, n, c, <<>>) IN
  [items |-> w.items, next |-> IF w.hit THEN w.iters ELSE 0]

\* all replies obtained by re-issuing the query with the returned cursor until it is 0
RECURSIVE PagesFrom(_, _, _, _, _)
PagesFrom(iter, keep, stop, c, n) ==
  LET p == Page(iter, keep, stop, c, n) IN
  IF p.next = 0 THEN <<p>> ELSE <<p>> \o PagesFrom(iter, keep, stop, p.next, n)
Pages(iter, keep, stop, n) == PagesFrom(iter, keep, stop, 0, n)

\* concatenation of the items of a sequence of replies (halving: recorded runs can have hundreds of
\* replies and TLC evaluates recursion on the Java stack)
RECURSIVE ConcatRange(_, _, _)
ConcatRange(ps, i, j) == IF i > j THEN <<>>
                         ELSE IF i = j THEN ps[i].items
                         ELSE LET mid == (i + j) \div 2 IN ConcatRange(ps, i, mid) \o ConcatRange(ps, mid + 1, j)
Concat(ps) == ConcatRange(ps, 1, Len(ps))

-----------------------------------------------------------------------------
(* Declarative reading.                                                     *)
Min2(a, b) == IF a < b THEN a ELSE b
Last(iter, stop) == Min2(stop - 1, Len(iter))              \* last position that can be returned
\* kept positions in (c, Last], ascending
KeptAfter(iter, keep, stop, c) ==
  SelectSeq([i \in 1..Len(iter) |-> i], LAMBDA p : p > c /\ p <= Last(iter, stop) /\ keep[p])
PageD(iter, keep, stop, c, n) ==
  LET ks == KeptAfter(iter, keep, stop, c) IN
  IF Len(ks) >= n THEN [items |-> [j \in 1..n |-> iter[ks[j]]], next |-> ks[n]]
  ELSE [items |-> [j \in 1..Len(ks) |-> iter[ks[j]]], next |-> 0]
\* what one unlimited query returns
Expected(iter, keep, stop) ==
  LET ks == KeptAfter(iter, keep, stop, 0) IN [j \in 1..Len(ks) |-> iter[ks[j]]]

-----------------------------------------------------------------------------
(* The statement of C11 as a predicate on what a client observes: `u` is    *)
(* the reply of one unlimited query, `pages` the replies obtained with      *)
(* LIMIT n by re-issuing the query with the returned cursor until it was 0  *)
(* (`trunc`: the client gave up because the cursor never became 0).         *)
(* Cursors are opaque here.  Used (a) as a theorem about the counting rule  *)
(* and (b) by CursorTrace to judge replies recorded from the real server,   *)
(* in particular for the R-tree walks whose order the model does not know.  *)
IsPrefixOf(s, t) == Len(s) <= Len(t) /\ SubSeq(t, 1, Len(s)) = s
Elems(s) == {s[i] : i \in 1..Len(s)}
HasDup(s) == \E i, j \in 1..Len(s) : i < j /\ s[i] = s[j]
Satisfies(u, pages, n, trunc) ==
  /\ ~trunc                                               \* the cursor became 0
  /\ Concat(pages) = u                                    \* nothing skipped, nothing repeated, 0 only at the end
  /\ \A j \in 1..Len(pages) : Len(pages[j].items) <= n    \* LIMIT n
\* the ways of not satisfying it, for the report (Satisfies <=> Defects = {})
Defects(u, pages, n, trunc) ==
  LET cat == Concat(pages)
      specific ==
        (IF trunc THEN {"cursor-never-zero"} ELSE {})
        \cup (IF ~trunc /\ cat # u /\ IsPrefixOf(cat, u) THEN {"zero-cursor-but-items-remain"} ELSE {})
        \cup (IF HasDup(cat) /\ ~HasDup(u) THEN {"item-repeated"} ELSE {})
        \cup (IF ~IsPrefixOf(cat, u) /\ Elems(u) \ Elems(cat) # {} THEN {"item-skipped"} ELSE {})
  IN specific
     \cup (IF cat # u /\ specific = {} THEN {"sequence-differs"} ELSE {})
     \cup (IF \E j \in 1..Len(pages) : Len(pages[j].items) > n THEN {"reply-exceeds-limit"} ELSE {})

-----------------------------------------------------------------------------
(* Paging one query on an unchanging collection.                            *)
VARIABLES iter, keep, stop, limit,     \* the query and the index, fixed
          cursor,                      \* cursor to send next
          out,                         \* concatenation of the replies so far
          npages, done
vars == <<iter, keep, stop, limit, cursor, out, npages, done>>

Init == /\ \E len \in 0..MaxLen :
             /\ iter = [i \in 1..len |-> i]            \* items are distinct: ids
             /\ keep \in [1..len -> BOOLEAN]
             /\ stop \in 1..(len + 1)
        /\ limit \in 1..MaxLimit
        /\ cursor = 0 /\ out = <<>> /\ npages = 0 /\ done = FALSE

NextPage == /\ ~done
            /\ LET p == Page(iter, keep, stop, cursor, limit) IN
               /\ out' = out \o p.items
               /\ cursor' = p.next
               /\ done' = (p.next = 0)
            /\ npages' = npages + 1
            /\ UNCHANGED <<iter, keep, stop, limit>>

Next == NextPage
Spec == Init /\ [][Next]_vars /\ WF_vars(NextPage)

Exp == Expected(iter, keep, stop)
Prefix(s, n) == SubSeq(s, 1, n)
IsPrefix(s, t) == Len(s) <= Len(t) /\ Prefix(t, Len(s)) = s

\* ---- the paging theorem ----
TypeOK == /\ Len(keep) = Len(iter) /\ cursor \in 0..Len(iter) /\ limit >= 1
\* the operational rule is the declarative one
RuleIsDeclarative ==
  Page(iter, keep, stop, cursor, limit) = PageD(iter, keep, stop, cursor, limit)
\* nothing skipped, nothing repeated so far: the replies so far are exactly the kept items up to the cursor
NothingSkippedOrRepeated ==
  out = IF done THEN Exp
        ELSE LET ks == SelectSeq(KeptAfter(iter, keep, stop, 0), LAMBDA p : p <= cursor) IN
             [j \in 1..Len(ks) |-> iter[ks[j]]]
\* paging to the end yields the sequence of one unlimited query
Complete == done => out = Exp
\* the unlimited query (LIMIT > length of the index) answers everything in one reply with cursor 0
UnlimitedIsExpected ==
  Page(iter, keep, stop, 0, Len(iter) + 1) = [items |-> Exp, next |-> 0]
\* a reply never exceeds LIMIT; a non-zero cursor comes with a full reply
PageShape == ~done => LET p == Page(iter, keep, stop, cursor, limit) IN
                         /\ Len(p.items) <= limit
                         /\ p.next # 0 => Len(p.items) = limit
                         /\ p.next = 0 => Len(p.items) < limit
\* a 0 cursor only when nothing remains
ZeroOnlyAtEnd == [][done' => out' = Exp]_vars
\* the cursor strictly increases until it becomes 0 (hence termination)
CursorIncreases == [][~done' => cursor' > cursor]_vars
\* number of replies needed
PageCount == done => npages = (Len(Exp) \div limit) + 1
\* the rule yields what the statement asks of the observable replies (cursors opaque)
RuleSatisfiesStatement == /\ Satisfies(Exp, Pages(iter, keep, stop, limit), limit, FALSE)
                          /\ Defects(Exp, Pages(iter, keep, stop, limit), limit, FALSE) = {}
Terminates == <>done
=============================================================================
