----------------------------- MODULE NotifySim -----------------------------
(* Random behaviours of the webhook path of Notify for `tlc -simulate'      *)
(* (model -> code).  A behaviour runs until the client programs are done,   *)
(* then - at a random later point - it is printed once: the recorded events *)
(* (writes, endpoint status changes, every send attempt with the message    *)
(* and the outcome, spurious signals, ticks) and what TLC computed for the  *)
(* end: the messages generated per hook, the ones accepted so far, the ones *)
(* the retention has dropped or will drop.  The harness replays the events  *)
(* against the real server, recovers the endpoints and demands that each    *)
(* hook's endpoint has then accepted exactly gen minus dropped, in order.   *)
(* TLC checks the invariants of Notify along every behaviour it follows.    *)
EXTENDS Notify, Json

CONSTANTS EnvOneIn, EndOneIn      \* an environment step / the end is offered in one of so many states
VARIABLE fin
simvars == <<vars, fin>>

SimInit == Init /\ fin = FALSE

ClientsFinished == \A c \in Conns : ci[c] > Len(Prog[c]) /\ cpc[c] = "idle"
NoBatch == \A h \in Hooks, n \in Incs : batch[h][n] = <<>> /\ hpc[h][n] # "reinsert"
\* a tick is taken only while no sender has anything to send to an endpoint that would answer (the harness
\* cannot hold a request across a tick: the client's timeout is shorter)
NoWriteInProgress == \A c \in Conns : cpc[c] = "idle"
TickSafe == /\ NoBatch /\ NoWriteInProgress       \* (for the harness a write happens at one instant)
            /\ \A h \in Hooks : Mine(h) = {} \/ \A i \in 1..Len(HookEps[h]) : ep[HookEps[h][i]] = "refuse"
\* the state in which a redefined hook is stuck (D14): its endpoints are up, messages wait in the queue, the new
\* manager waits for a signal and the old one has left
Stuck(h) == /\ \A i \in 1..Len(HookEps[h]) : ep[HookEps[h][i]] = "up"
            /\ Mine(h) # {}
            /\ hpc[h][inc[h]] = "wait"
            /\ \A n \in Incs : n < inc[h] => hpc[h][n] = "exit"
\* entries that are beyond their deadline can never be delivered any more
Doomed(h) == hexp[h] \cup {[w |-> e.w, d |-> e.d] : e \in {x \in q : x.h = h /\ x.exp <= clock}}

Snapshot == [hooks |-> [h \in Hooks |-> [key |-> HookKey[h], kinds |-> HookKinds[h], eps |-> HookEps[h]]],
             neps |-> NEps, ttl |-> TTL, maxclock |-> MaxClock,
             h |-> hist,
             gen |-> hgen, deliv |-> hdeliv,
             dropped |-> [h \in Hooks |-> Doomed(h)],
             ep |-> ep, clock |-> clock,
             stuck |-> [h \in Hooks |-> Stuck(h)],
             inorder |-> [h \in Hooks |-> IsSubseqInOrder(MsgSeq(hdeliv[h]), hgen[h])]]

SimFinish ==
  /\ ClientsFinished /\ ~fin /\ NoBatch
  /\ fin' = TRUE
  /\ UNCHANGED vars
  /\ PrintT(<<"TR", ToJson(Snapshot)>>)

\* the faults are drawn less often than the system moves, so that sends succeed and fail in all mixtures
SimNext == \/ (~fin /\ SysNext /\ UNCHANGED fin)
           \/ (~fin /\ RandomElement(1..EnvOneIn) = 1 /\ EnvNext /\ (clock' = clock \/ TickSafe) /\ UNCHANGED fin)
           \/ (RandomElement(1..EndOneIn) = 1 /\ SimFinish)
SimSpec == SimInit /\ [][SimNext]_simvars

\* Breadth-first probe of the as-coded SETHOOK redefinition (D14): every distinct state in which a hook is stuck, or in
\* which the acceptance order has just been broken while the clients are done, is printed with a shortest behaviour
\* that reaches it (VIEW hides the history).  The "invariant" is always true; printing is its side effect.
\* The hook is redefined only while its sender has a request in flight: that is the window the harness can hit
\* (it holds the request); a redefinition between the answer and the re-insertion cannot be forced from outside.
ProbeNext == \/ SysNext
             \/ \E e \in Eps : Flip(e)
             \/ \E h \in Hooks : Replace(h) /\ hpc[h][inc[h]] = "send" /\ batch[h][inc[h]] # <<>>
ProbeSpec == SimInit /\ [][ProbeNext /\ UNCHANGED fin]_simvars
ProbeView == <<View, fin>>
AnomalyProbe == (NoWriteInProgress /\ NoBatch /\ ((\E h \in Hooks : Stuck(h)) \/ ~HookInOrderNoDup))
                => PrintT(<<"TR", ToJson(Snapshot)>>)
=============================================================================
