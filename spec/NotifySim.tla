----------------------------- MODULE NotifySim -----------------------------
(* Random behaviours of the webhook path of Notify for `tlc -simulate'      *)
(* (model -> code).  A behaviour runs until the client programs are done,   *)
(* then - at a random later point - it is printed once: the recorded events *)
(* (writes, endpoint status changes, every send attempt with the message    *)
(* and the outcome, spurious signals, ticks) and what TLC computed for the  *)
(* end: the messages generated per hook, the ones accepted so far, the ones *)
(* the retention has dropped or will drop.  The harness replays the events  *)
(* against the real server, recovers the endpoints and demands that each    *)
(* hook's endpoint has then accepted exactly gen minus dropped, in order.   *)
(* TLC checks the invariants of Notify along every behaviour it follows.    *)
EXTENDS Notify, Json

CONSTANTS EnvOneIn, EndOneIn      \* an environment step / the end is offered in one of so many states
VARIABLE fin
simvars == <<vars, fin>>

SimInit == Init /\ fin = FALSE

ClientsFinished == \A c \in Conns : ci[c] > Len(Prog[c]) /\ cpc[c] = "idle"
\* a tick is taken only while no sender holds a batch (the harness cannot hold a request across a tick)
NoBatch == \A h \in Hooks, n \in Incs : batch[h][n] = <<>> /\ hpc[h][n] # "reinsert"
\* entries that are beyond their deadline can never be delivered any more
Doomed(h) == hexp[h] \cup {[w |-> e.w, d |-> e.d] : e \in {x \in q : x.h = h /\ x.exp <= clock}}

SimFinish ==
  /\ ClientsFinished /\ ~fin /\ NoBatch
  /\ fin' = TRUE
  /\ UNCHANGED vars
  /\ PrintT(<<"TR", ToJson([hooks |-> [h \in Hooks |-> [key |-> HookKey[h], kinds |-> HookKinds[h], eps |-> HookEps[h]]],
                            neps |-> NEps, ttl |-> TTL, maxclock |-> MaxClock,
                            h |-> hist,
                            gen |-> hgen, deliv |-> hdeliv,
                            dropped |-> [h \in Hooks |-> Doomed(h)],
                            ep |-> ep, clock |-> clock])>>)

\* the faults are drawn less often than the system moves, so that sends succeed and fail in all mixtures
SimNext == \/ (~fin /\ SysNext /\ UNCHANGED fin)
           \/ (~fin /\ RandomElement(1..EnvOneIn) = 1 /\ EnvNext /\ (clock' = clock \/ NoBatch) /\ UNCHANGED fin)
           \/ (RandomElement(1..EndOneIn) = 1 /\ SimFinish)
SimSpec == SimInit /\ [][SimNext]_simvars
=============================================================================
