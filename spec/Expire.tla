------------------------------- MODULE Expire -------------------------------
(***************************************************************************)
(* C14  Expiration is never early, always eventual, and visible as a       *)
(* delete everywhere.                                                      *)
(*                                                                         *)
(* Objects and hooks/channels with deadlines, the expiry index as SEPARATE *)
(* state that is maintained exactly as internal/collection/collection.go   *)
(* setFill/Delete (resp. server/hooks.go) maintain it, so that a stale     *)
(* entry is expressible, the periodic sweeper of server/expire.go, and the *)
(* log.                                                                    *)
(*                                                                         *)
(* A deadline is an interval [lo, hi] of clock readings: the code computes *)
(* `time.Now() + EX` somewhere inside the command, an observer only knows  *)
(* the clock before (lo - EX) and after (hi - EX) that instant.  In the    *)
(* design machine below lo = hi = now + ttl; in ExpireTrace lo / hi come   *)
(* from the server clock logged at the start / the end of the command.     *)
(* Every judgement (NeverEarly, Bounded, TTLRange) is written for          *)
(* intervals, so the same operators decide the design and recorded runs.   *)
(*                                                                         *)
(* The module has two parts:                                               *)
(*   1. pure command semantics on a state record S (cols, idx, hooks,      *)
(*      hidx) - one operator per command = one critical section;           *)
(*   2. the design state machine (commands at arbitrary instants, Tick,    *)
(*      the sweeper every P ticks at an arbitrary phase) with the          *)
(*      invariants of the property.                                        *)
(* Dev names a deviation: "none" is the intended (= coded) design, every   *)
(* other value is a broken variant that TLC must refute.                   *)
(***************************************************************************)
EXTENDS Integers, Sequences, FiniteSets, TLC

CONSTANTS Keys, Ids, HookNames, ChanNames,
          P,        \* sweep period: the next sweep starts at most P after the previous one
          Slack,    \* allowance for scheduling of the sweeper (0 in the design machine)
          Sec,      \* clock units per second (TTL replies are whole seconds)
          Dev       \* "none" | a named broken variant

Names == HookNames \cup ChanNames
IsChan(nm) == nm \in ChanNames

Devs == {"none", "KeepIdxOnOverwrite", "KeepIdxOnDelete", "SweepEarly", "SweepStoredClock", "ExpiryNotLogged",
         "RenameKeepsTargetIdx", "RenameLeavesIdxUnderOldKey", "KeepHookIdxOnReplace", "HookExpiryNotLogged",
         "ExpireKeepsOldEntry"}

-----------------------------------------------------------------------------
(* values *)
NoDl        == [x |-> FALSE, lo |-> 0, hi |-> 0]
Dl(lo, hi)  == [x |-> TRUE, lo |-> lo, hi |-> hi]
NoObj       == [p |-> FALSE, s |-> FALSE, x |-> FALSE, lo |-> 0, hi |-> 0]      \* p present, s spatial, x has a deadline
NoHook      == [p |-> FALSE, k |-> "", x |-> FALSE, lo |-> 0, hi |-> 0]
Obj(s, d)   == [p |-> TRUE, s |-> s, x |-> d.x, lo |-> d.lo, hi |-> d.hi]
Hook(k, d)  == [p |-> TRUE, k |-> k, x |-> d.x, lo |-> d.lo, hi |-> d.hi]
E(k, i, o)  == [k |-> k, i |-> i, lo |-> o.lo, hi |-> o.hi]                      \* entry of the per-collection expires tree
HE(nm, h)   == [nm |-> nm, lo |-> h.lo, hi |-> h.hi]                             \* entry of Server.hookExpires

EmptyCols  == [k \in Keys |-> [i \in Ids |-> NoObj]]
EmptyHooks == [nm \in Names |-> NoHook]
EmptyS     == [cols |-> EmptyCols, idx |-> {}, hooks |-> EmptyHooks, hidx |-> {}]

(* replies: uniformly typed records (TLC cannot compare a string with a number) *)
Rep(t, n, s) == [t |-> t, n |-> n, s |-> s]
ROk     == Rep("ok", 0, {})
RInt(n) == Rep("int", n, {})
RNil    == Rep("nil", 0, {})
RObj    == Rep("obj", 0, {})
RErr(c) == Rep("err", 0, {c})
RSet(s) == Rep("set", Cardinality(s), s)

(* log records: what replaying the command needs to know (x: the logged command carries EX) *)
L(op, k, i, x) == [op |-> op, k |-> k, i |-> i, x |-> x]

(* commands: [op, k, i, k2, nm, d] - all fields always there *)
Cmd(op, k, i, k2, nm, d) == [op |-> op, k |-> k, i |-> i, k2 |-> k2, nm |-> nm, d |-> d]

-----------------------------------------------------------------------------
(* 1. pure semantics *)

HasKey(S, k) == \E i \in Ids : S.cols[k][i].p
Present(S)   == {<<k, i>> \in Keys \X Ids : S.cols[k][i].p}
IdsOf(S, k)  == {i \in Ids : S.cols[k][i].p}
SpatialOf(S, k) == {i \in Ids : S.cols[k][i].p /\ S.cols[k][i].s}

\* Collection.setFill(prev, obj): the previous object's entry leaves the tree, the new object's enters it
SetFill(S, k, i, new, keepOld) ==
  LET prev == S.cols[k][i]
      i1 == IF prev.p /\ prev.x /\ ~keepOld THEN S.idx \ {E(k, i, prev)} ELSE S.idx
      i2 == IF new.x THEN i1 \cup {E(k, i, new)} ELSE i1
  IN [S EXCEPT !.cols[k][i] = new, !.idx = i2]

\* Collection.Delete(id)
ColDelete(S, k, i) ==
  LET prev == S.cols[k][i]
      i1 == IF prev.p /\ prev.x /\ Dev # "KeepIdxOnDelete" THEN S.idx \ {E(k, i, prev)} ELSE S.idx
  IN [S EXCEPT !.cols[k][i] = NoObj, !.idx = i1]

Res(S, r, lg) == [S |-> S, r |-> r, lg |-> lg]

\* SET key id [EX s] POINT ...: the deadline is replaced (absent EX => none)
CmdSet(S, c) == Res(SetFill(S, c.k, c.i, Obj(TRUE, c.d), Dev = "KeepIdxOnOverwrite"), ROk, <<L("set", c.k, c.i, c.d.x)>>)

\* EXPIRE key id s
CmdExpire(S, c) ==
  LET o == S.cols[c.k][c.i] IN
  IF o.p THEN Res(SetFill(S, c.k, c.i, Obj(o.s, c.d), Dev \in {"KeepIdxOnOverwrite", "ExpireKeepsOldEntry"}),
                  RInt(1), <<L("expire", c.k, c.i, TRUE)>>)
         ELSE Res(S, RInt(0), <<>>)

\* PERSIST key id
CmdPersist(S, c) ==
  LET o == S.cols[c.k][c.i] IN
  IF o.p /\ o.x THEN Res(SetFill(S, c.k, c.i, Obj(o.s, NoDl), Dev = "KeepIdxOnOverwrite"), RInt(1), <<L("persist", c.k, c.i, FALSE)>>)
                ELSE Res(S, RInt(0), <<>>)

\* FSET key id field value (a value that differs from the stored one): keeps the deadline
CmdFset(S, c) ==
  LET o == S.cols[c.k][c.i] IN
  IF ~HasKey(S, c.k) THEN Res(S, RErr("nokey"), <<>>)
  ELSE IF ~o.p THEN Res(S, RErr("noid"), <<>>)
  ELSE Res(SetFill(S, c.k, c.i, o, Dev = "KeepIdxOnOverwrite"), RInt(1), <<L("fset", c.k, c.i, FALSE)>>)

\* JSET key id path value: on a spatial object re-enters SET ... OBJECT (no EX), otherwise stores a string
\* object with deadline 0 - the deadline is dropped either way (as coded)
CmdJset(S, c) ==
  LET o == S.cols[c.k][c.i] IN
  Res(SetFill(S, c.k, c.i, Obj(o.p /\ o.s, NoDl), Dev = "KeepIdxOnOverwrite"), ROk, <<L("jset", c.k, c.i, FALSE)>>)

\* DEL key id
CmdDel(S, c) ==
  IF S.cols[c.k][c.i].p THEN Res(ColDelete(S, c.k, c.i), RInt(1), <<L("del", c.k, c.i, FALSE)>>)
                        ELSE Res(S, RInt(0), <<>>)

\* RENAME key newkey: the collection object (with its expires tree) moves; an existing target is discarded
CmdRename(S, c) ==
  LET onk(ch) == \E nm \in Names : S.hooks[nm].p /\ S.hooks[nm].k \in {c.k, c.k2} /\ IsChan(nm) = ch
      moved == {[e EXCEPT !.k = c.k2] : e \in {e \in S.idx : e.k = c.k}}
      rest  == {e \in S.idx : e.k \notin {c.k, c.k2}}
      idx2  == CASE Dev = "RenameKeepsTargetIdx" -> rest \cup moved \cup {e \in S.idx : e.k = c.k2}
                 [] Dev = "RenameLeavesIdxUnderOldKey" -> rest \cup {e \in S.idx : e.k = c.k}
                 [] OTHER -> rest \cup moved
  IN IF ~HasKey(S, c.k) THEN Res(S, RErr("nokey"), <<>>)
     ELSE IF onk(FALSE) THEN Res(S, RErr("hashooks"), <<>>)
     ELSE IF onk(TRUE) THEN Res(S, RErr("haschans"), <<>>)
     ELSE IF c.k = c.k2 THEN Res(S, ROk, <<L("rename", c.k, c.k2, FALSE)>>)
     ELSE Res([S EXCEPT !.cols[c.k2] = S.cols[c.k], !.cols[c.k] = [i \in Ids |-> NoObj], !.idx = idx2],
              ROk, <<L("rename", c.k, c.k2, FALSE)>>)

\* SETHOOK / SETCHAN name ... [EX s] WITHIN key FENCE ...: an identical hook without deadline is left alone
CmdSetHook(S, c) ==
  LET prev == S.hooks[c.nm]
      new  == Hook(c.k, c.d)
      h1 == IF prev.p /\ prev.x /\ Dev # "KeepHookIdxOnReplace" THEN S.hidx \ {HE(c.nm, prev)} ELSE S.hidx
      h2 == IF new.x THEN h1 \cup {HE(c.nm, new)} ELSE h1
  IN IF prev.p /\ ~prev.x /\ ~c.d.x /\ prev.k = c.k THEN Res(S, RInt(0), <<>>)
     ELSE Res([S EXCEPT !.hooks[c.nm] = new, !.hidx = h2], RInt(1), <<L("sethook", c.k, c.nm, c.d.x)>>)

\* DELHOOK / DELCHAN name
CmdDelHook(S, c) ==
  LET prev == S.hooks[c.nm] IN
  IF prev.p THEN Res([S EXCEPT !.hooks[c.nm] = NoHook,
                               !.hidx = IF prev.x THEN S.hidx \ {HE(c.nm, prev)} ELSE S.hidx],
                     RInt(1), <<L("delhook", "", c.nm, FALSE)>>)
            ELSE Res(S, RInt(0), <<>>)

WriteOps == {"set", "expire", "persist", "fset", "jset", "del", "rename", "sethook", "delhook"}

Apply(S, c) == CASE c.op = "set"     -> CmdSet(S, c)
                 [] c.op = "expire"  -> CmdExpire(S, c)
                 [] c.op = "persist" -> CmdPersist(S, c)
                 [] c.op = "fset"    -> CmdFset(S, c)
                 [] c.op = "jset"    -> CmdJset(S, c)
                 [] c.op = "del"     -> CmdDel(S, c)
                 [] c.op = "rename"  -> CmdRename(S, c)
                 [] c.op = "sethook" -> CmdSetHook(S, c)
                 [] c.op = "delhook" -> CmdDelHook(S, c)

(* reads: every read, count and search serves exactly the objects that are present *)
ReadOps == {"get", "exists", "fget", "scancount", "scanids", "withincount", "withinids", "intersectscount",
            "nearbyids", "keys", "stats", "hooks", "chans"}

Read(S, c) ==
  CASE c.op = "get"    -> IF S.cols[c.k][c.i].p THEN RObj ELSE RNil
    [] c.op = "exists" -> IF ~HasKey(S, c.k) THEN RErr("nokey") ELSE RInt(IF S.cols[c.k][c.i].p THEN 1 ELSE 0)
    [] c.op = "fget"   -> IF ~HasKey(S, c.k) THEN RErr("nokey") ELSE IF S.cols[c.k][c.i].p THEN RObj ELSE RErr("noid")
    [] c.op = "scancount"       -> RInt(Cardinality(IdsOf(S, c.k)))
    [] c.op = "scanids"         -> RSet(IdsOf(S, c.k))
    [] c.op = "withincount"     -> RInt(Cardinality(SpatialOf(S, c.k)))
    [] c.op = "withinids"       -> RSet(SpatialOf(S, c.k))
    [] c.op = "intersectscount" -> RInt(Cardinality(SpatialOf(S, c.k)))
    [] c.op = "nearbyids"       -> RSet(SpatialOf(S, c.k))
    [] c.op = "keys"   -> RSet({k \in Keys : HasKey(S, k)})
    [] c.op = "stats"  -> IF HasKey(S, c.k) THEN RInt(Cardinality(IdsOf(S, c.k))) ELSE RNil
    [] c.op = "hooks"  -> RSet({nm \in HookNames : S.hooks[nm].p})
    [] c.op = "chans"  -> RSet({nm \in ChanNames : S.hooks[nm].p})

(* TTL: -2 missing, -1 no deadline, else the whole seconds that remain (clamped at 0).  The clock of the      *)
(* command lies in [tb, te], the deadline in [lo, hi]: the reply lies in the range below.                     *)
FloorDiv(a, b) == a \div b          \* TLC: \div is floor division for a positive divisor
Max(a, b) == IF a >= b THEN a ELSE b
TTLRange(o, tb, te) ==
  IF ~o.p THEN [lo |-> -2, hi |-> -2]
  ELSE IF ~o.x THEN [lo |-> -1, hi |-> -1]
  ELSE [lo |-> Max(0, FloorDiv(o.lo - te, Sec)), hi |-> Max(0, FloorDiv(o.hi - tb, Sec))]

(* judgements shared by the design machine and by recorded runs *)
MayExpire(o, clock) == o.p /\ o.x /\ o.lo <= clock         \* NeverEarly: the sweeper (its clock reading) may remove o
Overdue(o, t)       == o.p /\ o.x /\ t > o.hi + P + Slack  \* Bounded: o is certainly still there too late

(* what a replay of the log reconstructs: presence, kind and has-deadline *)
ShObj(o)  == [p |-> o.p, s |-> o.s, x |-> o.x]
ShHook(h) == [p |-> h.p, k |-> h.k, x |-> h.x]
Proj(S)   == [cols |-> [k \in Keys |-> [i \in Ids |-> ShObj(S.cols[k][i])]],
              hooks |-> [nm \in Names |-> ShHook(S.hooks[nm])]]
NoSh == ShObj(NoObj)
ShApply(sh, r) ==
  CASE r.op = "set"     -> [sh EXCEPT !.cols[r.k][r.i] = [p |-> TRUE, s |-> TRUE, x |-> r.x]]
    [] r.op = "expire"  -> IF sh.cols[r.k][r.i].p THEN [sh EXCEPT !.cols[r.k][r.i].x = TRUE] ELSE sh
    [] r.op = "persist" -> IF sh.cols[r.k][r.i].p THEN [sh EXCEPT !.cols[r.k][r.i].x = FALSE] ELSE sh
    [] r.op = "fset"    -> sh
    [] r.op = "jset"    -> [sh EXCEPT !.cols[r.k][r.i] = [p |-> TRUE, s |-> sh.cols[r.k][r.i].p /\ sh.cols[r.k][r.i].s, x |-> FALSE]]
    [] r.op = "del"     -> [sh EXCEPT !.cols[r.k][r.i] = NoSh]
    [] r.op = "rename"  -> IF r.k = r.i \/ ~(\E j \in Ids : sh.cols[r.k][j].p) THEN sh
                           ELSE [sh EXCEPT !.cols[r.i] = sh.cols[r.k], !.cols[r.k] = [j \in Ids |-> NoSh]]
    [] r.op = "sethook" -> [sh EXCEPT !.hooks[r.i] = [p |-> TRUE, k |-> r.k, x |-> r.x]]
    [] r.op = "delhook" -> [sh EXCEPT !.hooks[r.i] = ShHook(NoHook)]
RECURSIVE ShFold(_, _)
ShFold(sh, lg) == IF lg = <<>> THEN sh ELSE ShFold(ShApply(sh, Head(lg)), Tail(lg))
Replay(lg) == ShFold(Proj(EmptyS), lg)

RECURSIVE SeqOfSet(_)
SeqOfSet(s) == IF s = {} THEN <<>> ELSE LET x == CHOOSE y \in s : TRUE IN <<x>> \o SeqOfSet(s \ {x})

-----------------------------------------------------------------------------
(* 2. the design machine *)

CONSTANTS TTLs,      \* durations (ticks) a command may carry
          MaxNow,    \* the clock stops here
          MaxOps     \* commands per behaviour

VARIABLES now,       \* the integer clock
          st,        \* [cols, idx, hooks, hidx]
          due,       \* instant of the next sweep
          stored,    \* clock reading remembered by the sweeper (only the deviation SweepStoredClock reads it)
          shadow,    \* Replay(log), kept incrementally
          log,       \* the append-only log
          nops,
          ev         \* what the last step did (for the action-shaped invariants)
vars == <<now, st, due, stored, shadow, log, nops, ev>>

NoEv == [a |-> "none", t |-> 0, rem |-> {}, hrem |-> {}, nlog |-> 0]

Init == /\ now = 0 /\ st = EmptyS /\ due \in 0..(P - 1) /\ stored = 0
        /\ shadow = Proj(EmptyS) /\ log = <<>> /\ nops = 0 /\ ev = NoEv

DlOf(ttl) == IF ttl < 0 THEN NoDl ELSE Dl(now + ttl, now + ttl)
TTLOpt == TTLs \cup {-1}

Commands ==
  {Cmd("set", k, i, "", "", DlOf(t)) : k \in Keys, i \in Ids, t \in TTLOpt} \cup
  {Cmd("expire", k, i, "", "", DlOf(t)) : k \in Keys, i \in Ids, t \in TTLs} \cup
  {Cmd(op, k, i, "", "", NoDl) : op \in {"persist", "fset", "jset", "del"}, k \in Keys, i \in Ids} \cup
  {Cmd("rename", v[1], "", v[2], "", NoDl) : v \in {w \in Keys \X Keys : w[1] # w[2]}} \cup
  {Cmd("sethook", k, "", "", nm, DlOf(t)) : k \in Keys, nm \in Names, t \in TTLOpt} \cup
  {Cmd("delhook", "", "", "", nm, NoDl) : nm \in Names}

Do(c) == LET r == Apply(st, c) IN
         /\ nops < MaxOps
         /\ st' = r.S
         /\ log' = log \o r.lg
         /\ shadow' = ShFold(shadow, r.lg)
         /\ nops' = nops + 1
         /\ ev' = [NoEv EXCEPT !.a = "cmd", !.t = now]
         /\ UNCHANGED <<now, due, stored>>

Tick == /\ now < due /\ now < MaxNow
        /\ now' = now + 1
        /\ ev' = NoEv
        /\ UNCHANGED <<st, due, stored, shadow, log, nops>>

\* backgroundExpiring: read the clock, collect the due entries of every index, DEL / DELHOOK each BY NAME, log each
SweepClock == CASE Dev = "SweepEarly" -> now + P          \* compares with a clock that runs ahead
                [] Dev = "SweepStoredClock" -> stored      \* compares with the clock of the previous sweep
                [] OTHER -> now
Sweep ==
  LET clock == SweepClock
      dueO == {e \in st.idx : e.hi <= clock}
      dueH == {e \in st.hidx : e.hi <= clock}
      vict == {<<e.k, e.i>> : e \in dueO} \cap Present(st)
      hvic == {e.nm : e \in dueH} \cap {nm \in Names : st.hooks[nm].p}
      own  == {E(v[1], v[2], st.cols[v[1]][v[2]]) : v \in {w \in vict : st.cols[w[1]][w[2]].x}}
      hown == {HE(nm, st.hooks[nm]) : nm \in {n \in hvic : st.hooks[n].x}}
      S2 == [cols |-> [k \in Keys |-> [i \in Ids |-> IF <<k, i>> \in vict THEN NoObj ELSE st.cols[k][i]]],
             idx |-> IF Dev = "KeepIdxOnDelete" THEN st.idx ELSE st.idx \ own,
             hooks |-> [nm \in Names |-> IF nm \in hvic THEN NoHook ELSE st.hooks[nm]],
             hidx |-> st.hidx \ hown]
      lgO == IF Dev = "ExpiryNotLogged" THEN <<>> ELSE SeqOfSet({L("del", v[1], v[2], FALSE) : v \in vict})
      lgH == IF Dev = "HookExpiryNotLogged" THEN <<>> ELSE SeqOfSet({L("delhook", "", nm, FALSE) : nm \in hvic})
  IN /\ now = due
     /\ st' = S2
     /\ log' = log \o lgO \o lgH
     /\ shadow' = ShFold(shadow, lgO \o lgH)
     /\ due' = now + P
     /\ stored' = now
     /\ ev' = [a |-> "sweep", t |-> now,
               rem |-> {[k |-> v[1], i |-> v[2], o |-> st.cols[v[1]][v[2]]] : v \in vict},
               hrem |-> {[nm |-> nm, o |-> st.hooks[nm]] : nm \in hvic},
               nlog |-> Len(lgO) + Len(lgH)]
     /\ UNCHANGED <<now, nops>>

\* one action per command (= per critical section of the code)
ASet     == \E c \in {d \in Commands : d.op = "set"} : Do(c)
AExpire  == \E c \in {d \in Commands : d.op = "expire"} : Do(c)
APersist == \E c \in {d \in Commands : d.op = "persist"} : Do(c)
AFset    == \E c \in {d \in Commands : d.op = "fset"} : Do(c)
AJset    == \E c \in {d \in Commands : d.op = "jset"} : Do(c)
ADel     == \E c \in {d \in Commands : d.op = "del"} : Do(c)
ARename  == \E c \in {d \in Commands : d.op = "rename"} : Do(c)
ASetHook == \E c \in {d \in Commands : d.op = "sethook"} : Do(c)
ADelHook == \E c \in {d \in Commands : d.op = "delhook"} : Do(c)
Next == ASet \/ AExpire \/ APersist \/ AFset \/ AJset \/ ADel \/ ARename \/ ASetHook \/ ADelHook \/ Tick \/ Sweep
Spec == Init /\ [][Next]_vars

\* the log itself is a history: states that differ only in it are explored once (shadow = Replay(log) is state)
View == <<now, st, due, stored, shadow, nops, ev>>
\* ... and the step-shaped half of ExpiryIsLoggedDel is an action property, evaluated on every explored transition
SweepAppendsDels == [][ev'.a = "sweep" => /\ Len(log') = Len(log) + Cardinality(ev'.rem) + Cardinality(ev'.hrem)
                                          /\ \A j \in (Len(log) + 1)..Len(log') : log'[j].op \in {"del", "delhook"}]_vars

-----------------------------------------------------------------------------
(* the property *)

TypeOK == /\ now \in 0..MaxNow /\ due \in 0..(MaxNow + P)
          /\ \A k \in Keys, i \in Ids : st.cols[k][i].p \in BOOLEAN
          /\ ev.a \in {"none", "cmd", "sweep"}

\* an object (hook) is removed by the sweeper only when it has a deadline and the deadline has passed
NeverEarly == ev.a = "sweep" =>
                /\ \A r \in ev.rem : MayExpire(r.o, ev.t)
                /\ \A r \in ev.hrem : MayExpire(r.o, ev.t)

\* nothing with a deadline is still there later than one sweep period after it
Bounded == /\ \A k \in Keys, i \in Ids : ~Overdue(st.cols[k][i], now)
           /\ \A nm \in Names : ~Overdue(st.hooks[nm], now)

\* the index holds exactly the deadlines of the present objects: no entry outlives the object it was made for
NoStaleTimer == /\ st.idx = {E(v[1], v[2], st.cols[v[1]][v[2]]) : v \in {w \in Keys \X Ids : st.cols[w[1]][w[2]].p /\ st.cols[w[1]][w[2]].x}}
                /\ st.hidx = {HE(nm, st.hooks[nm]) : nm \in {n \in Names : st.hooks[n].p /\ st.hooks[n].x}}

\* every expiry is in the log: replaying the log (restart, follower) gives exactly the served objects and hooks
ExpiryIsLoggedDel == /\ shadow = Proj(st)
                     /\ ev.a = "sweep" => ev.nlog = Cardinality(ev.rem) + Cardinality(ev.hrem)

\* TTL: answers >= 0 exactly for the objects that have a timer, and the answer is the floor of what remains
TTLReports == \A k \in Keys, i \in Ids :
                LET o == st.cols[k][i]
                    r == TTLRange(o, now, now) IN
                /\ r.lo = r.hi
                /\ (r.lo >= 0) = (\E e \in st.idx : e.k = k /\ e.i = i)
                /\ (o.p /\ o.x /\ o.hi >= now) => (r.lo * Sec <= o.hi - now /\ o.hi - now < (r.lo + 1) * Sec)
                /\ (~o.p) = (r.lo = -2)
=============================================================================
