---------------------------- MODULE SpatialStmt ----------------------------
(***************************************************************************)
(* C02, the statement itself, free of any model of the index.              *)
(*                                                                         *)
(* `reply' is the sequence of ids a WITHIN / INTERSECTS query returned,    *)
(* `present' the ids of the collection at that moment, `holds' the set of  *)
(* present ids for which the per-object predicate (what TEST evaluates     *)
(* without an index) holds for the query area.                             *)
(*   Exact  : the reply is exactly the objects satisfying the predicate    *)
(*            (every one of them once, nothing else);                      *)
(*   Thinned: SPARSE only thins - nothing that fails the predicate, no id  *)
(*            twice.                                                        *)
(* Used by Spatial (design + generated behaviours) and by SpatialTrace     *)
(* (recorded behaviours of the real code).                                 *)
(***************************************************************************)
EXTENDS Integers, Sequences, FiniteSets

Elems(s) == {s[j] : j \in 1..Len(s)}
NoDup(s) == Cardinality(Elems(s)) = Len(s)

Lost(reply, holds)     == holds \ Elems(reply)          \* satisfy the predicate, not returned
Invented(reply, holds) == Elems(reply) \ holds          \* returned, do not satisfy it (or do not exist)

Exact(reply, holds)   == Elems(reply) = holds /\ NoDup(reply)
Thinned(reply, holds) == Elems(reply) \subseteq holds /\ NoDup(reply)

\* why a reply is not acceptable (empty set = acceptable); total: Exact <=> ExactDefects = {}
ExactDefects(reply, holds) ==
  (IF Lost(reply, holds) # {} THEN {"lost"} ELSE {}) \cup
  (IF Invented(reply, holds) # {} THEN {"invented"} ELSE {}) \cup
  (IF ~NoDup(reply) THEN {"duplicate"} ELSE {})
ThinnedDefects(reply, holds) ==
  (IF Invented(reply, holds) # {} THEN {"invented"} ELSE {}) \cup
  (IF ~NoDup(reply) THEN {"duplicate"} ELSE {})
=============================================================================
