------------------------------- MODULE Gates -------------------------------
(* Property C15: the access gates of tile38 -- follower, READONLY,          *)
(* requirepass and protected mode -- hold for every command.                 *)
(*                                                                           *)
(* The module states, for every (server mode, connection state, command,    *)
(* wrapper), what the property allows the server to do:                      *)
(*   rep        the set of allowed reply classes                             *)
(*   unchanged  the dataset and the log must not change                      *)
(*   nodata     the reply must not disclose object data                      *)
(*   authd      may the connection be authenticated afterwards (T, F, any)   *)
(* (operator Gate), and a small state machine -- one server, one            *)
(* connection -- whose steps are "connect from a peer" and "send a command  *)
(* under a wrapper".  Every step may have any outcome the gate allows; the   *)
(* statement of the property is checked on that machine as action            *)
(* properties/invariants (Stmt...), independently of Gate's case split.      *)
(*                                                                           *)
(* Nothing about a command is declared here except two small tables taken    *)
(* from the statement (Exempt, ObjectReads).  Whether a command modifies     *)
(* data, is served, or discloses object data is MEASURED on a real leader    *)
(* by the harness for every (command instance, wrapper) and enters as the    *)
(* constants MutL, OkL, DataL; the command list itself (InstSeq, Base) is    *)
(* extracted from the current source tree at check time.                     *)
(*                                                                           *)
(* Where the statement is silent (what a leader, a caught-up follower, an    *)
(* authenticated connection or a loopback peer gets; which error text a      *)
(* script gets) every outcome is allowed.                                    *)
EXTENDS Naturals, Sequences, FiniteSets

CONSTANTS
  InstSeq,     \* sequence of command instances (strings), one per (command of the source, argument template)
  Base,        \* [instance -> command name, lower case, as it appears in the source]
  AuthKind,    \* [instance -> "right" | "wrong" | "none" | "-"]: the password an AUTH instance carries
  WrapperSeq,  \* sequence of wrappers (subset of AllWrappers)
  Cannot,      \* set of <<instance, wrapper>> that the wrapper cannot carry: not generated
  Detaches,    \* instances after which the connection is not used any more (QUIT, SUBSCRIBE, AOF, MONITOR, ... FENCE)
  MutL,        \* measured on a leader: <<instance, wrapper>> changed the dataset projection or was logged
  OkL,         \* measured on a leader: <<instance, wrapper>> got a non-error reply
  DataL,       \* measured on a leader: the reply to <<instance, wrapper>> contained object data
  ServerSet,   \* "statement": the six server modes of the property; "all": every consistent combination
  NlEverywhere,\* TRUE: non-loopback peers also connect to servers that are not protected
  MaxCmds,     \* commands per connection (authentication steps that change the connection state not counted)
  DevUngatedWrites, \* named deviation (intended: {}): commands the write gate forgets ({"jdel"}: the tree before "fix: treat JDEL as a write command")
  DevUngatedReads   \* named deviation (intended: {}): commands the catch-up gate forgets (as coded: {"test"})

Insts    == {InstSeq[k] : k \in 1..Len(InstSeq)}
Wrappers == {WrapperSeq[k] : k \in 1..Len(WrapperSeq)}
AllWrappers == {"plain", "timeout", "eval", "evalro", "evalna", "json", "native", "http", "httpauth", "httpbad"}

\* ---------------------------------------------------------------- replies
ErrClasses == {"not-leader", "read-only", "catching-up", "auth-required", "invalid-password", "err"}
Classes    == ErrClasses \cup {"ok", "denied", "closed", "none"}
\* "ok": any non-error reply; "err": any other error; "denied": the protected-mode refusal;
\* "closed"/"none": no reply (connection closed / silence)
Rejected   == ErrClasses \cup {"denied", "closed"}   \* the command was not carried out and says so (or nobody listens)

\* ---------------------------------------------------------------- the two tables of the statement
\* "only PING, ECHO, QUIT, OUTPUT, HEALTHZ and AUTH get a non-error reply"
Exempt == {"ping", "echo", "quit", "output", "healthz", "auth"}
\* "object reads and searches" (commands that read a stored object or search a collection);
\* any other command whose reply on a leader carries object data (DataL) is treated alike
ObjectReads == {"get", "fget", "jget", "exists", "fexists", "ttl", "scan", "search", "nearby", "within", "intersects"}

\* ---------------------------------------------------------------- wrappers
ScriptW == {"eval", "evalro", "evalna"}          \* command issued by tile38.call from a script
HttpW   == {"http", "httpauth", "httpbad"}       \* one HTTP request (no / right / wrong Authorization header)
Direct(w) == w \notin ScriptW
\* the command name the server's front door sees
Outer(i, w) == IF w = "timeout" THEN "timeout" ELSE IF w \in ScriptW THEN w ELSE Base[i]

\* ---------------------------------------------------------------- modes
SrvRec(f, c, r, p, x) == [follower |-> f, caughtUpOnce |-> c, readOnly |-> r, requirepass |-> p, protected |-> x]
Leader == SrvRec(FALSE, FALSE, FALSE, FALSE, FALSE)
StatementServers ==
  { Leader,
    SrvRec(TRUE, FALSE, FALSE, FALSE, FALSE),     \* follower that never caught up
    SrvRec(TRUE, TRUE, FALSE, FALSE, FALSE),      \* follower, caught up
    SrvRec(FALSE, FALSE, TRUE, FALSE, FALSE),     \* READONLY
    SrvRec(FALSE, FALSE, FALSE, TRUE, FALSE),     \* requirepass set
    SrvRec(FALSE, FALSE, FALSE, FALSE, TRUE) }    \* protected mode
AllServers ==
  { SrvRec(f, c, r, p, x) : f \in BOOLEAN, c \in BOOLEAN, r \in BOOLEAN, p \in BOOLEAN, x \in BOOLEAN }
ConsistentServers ==
  { s \in AllServers : (s.caughtUpOnce => s.follower)
                       /\ ~(s.protected /\ s.requirepass) }  \* protected mode means: no password is requested
Servers == IF ServerSet = "all" THEN ConsistentServers ELSE StatementServers

\* early: the connection was opened, and had an ordinary command answered, BEFORE the password was configured
\* (CONFIG SET requirepass at run time); it never sent the password, so it is as unauthenticated as a fresh one
NoConn == [st |-> "none", peer |-> "lo", authd |-> FALSE, tried |-> FALSE, sawRight |-> FALSE, n |-> 0, early |-> FALSE]
Earlies(s) == IF s.requirepass THEN BOOLEAN ELSE {FALSE}
Peers(s) == IF s.protected \/ NlEverywhere THEN {"lo", "nl"} ELSE {"lo"}
Refuses(s, p) == s.protected /\ p = "nl"

\* ---------------------------------------------------------------- the gate
RightAuth(i, w) == Base[i] = "auth" /\ AuthKind[i] = "right" /\ Outer(i, w) = "auth"
PassesAuth(s, c, w) == ~s.requirepass \/ c.authd \/ w = "httpauth"
ObjRead(i, w) == (Base[i] \in ObjectReads /\ <<i, w>> \in OkL) \/ <<i, w>> \in DataL

Free == [rep |-> Classes, unchanged |-> FALSE, nodata |-> FALSE, authd |-> "any", rule |-> "free"]

ConnectGate(s, p) ==
  IF Refuses(s, p)
  THEN [rep |-> {"denied"}, unchanged |-> TRUE, nodata |-> TRUE, authd |-> "F", rule |-> "refused"]
  ELSE [rep |-> {"accepted"}, unchanged |-> TRUE, nodata |-> TRUE, authd |-> "F", rule |-> "accepted"]

Gate(s, c, i, w) ==
  LET mut  == <<i, w>> \in MutL
      gw   == ~(Direct(w) /\ Base[i] \in DevUngatedWrites)   \* deviations concern commands sent directly
      gr   == ~(Direct(w) /\ Base[i] \in DevUngatedReads)
      wf   == s.follower /\ mut /\ gw
      wr   == s.readOnly /\ mut /\ gw
      cup  == s.follower /\ ~s.caughtUpOnce /\ ObjRead(i, w) /\ gr
  IN
  IF c.st = "refused" THEN
     \* in protected mode a non-loopback peer is refused before any command is read
     [rep |-> {"closed"}, unchanged |-> TRUE, nodata |-> TRUE, authd |-> "F", rule |-> "refused"]
  ELSE IF ~PassesAuth(s, c, w) THEN
     \* a connection that has not authenticated obtains no data and causes no change through any
     \* command; only the exempt commands get a non-error reply; a wrong password never authenticates
     [rep |-> IF Outer(i, w) \in Exempt THEN Classes ELSE ErrClasses,
      unchanged |-> TRUE, nodata |-> TRUE,
      authd |-> IF RightAuth(i, w) THEN "any" ELSE "F",
      rule |-> "auth-gate"]
  ELSE IF wf \/ wr THEN
     \* a follower / READONLY server rejects every data-modifying command and changes nothing
     \* (which words the refusal uses - "not the leader", "read only", which of two applicable ones wins - is the
     \*  code's business: the statement demands a rejection and no change)
     [rep |-> ErrClasses,
      unchanged |-> TRUE, nodata |-> cup, authd |-> "any", rule |-> "write-gate"]
  ELSE IF cup THEN
     \* a follower that has never caught up refuses to serve object reads and searches
     \* (the read commands named by the statement, sent directly, get the dedicated error; for anything
     \* else that would carry object data -- a script, EVAL itself -- any rejection is a refusal)
     [rep |-> ErrClasses,
      unchanged |-> FALSE, nodata |-> TRUE, authd |-> "any", rule |-> "catchup-gate"]
  ELSE Free

\* ---------------------------------------------------------------- the machine
VARIABLES srv,   \* server mode
          conn,  \* the connection
          last   \* the last step: what was sent, what the gate allowed, what came out
vars == <<srv, conn, last>>

Null == [k |-> "init"]

Init == srv \in Servers /\ conn = NoConn /\ last = Null

Connect(p, e) ==
  /\ conn.st = "none"
  /\ p \in Peers(srv) /\ e \in Earlies(srv)
  /\ conn' = [NoConn EXCEPT !.st = IF Refuses(srv, p) THEN "refused" ELSE "open", !.peer = p, !.early = e]
  /\ last' = [k |-> "connect", peer |-> p, i |-> "-", w |-> "-", pre |-> conn, post |-> conn',
              exp |-> ConnectGate(srv, p),
              out |-> [rep |-> IF Refuses(srv, p) THEN "denied" ELSE "accepted", chg |-> FALSE, leak |-> FALSE]]
  /\ UNCHANGED srv

\* a step that only moves the connection between the authentication states (not counted in n)
IsPrep(i, w) ==
  /\ srv.requirepass /\ conn.st = "open" /\ ~conn.authd /\ w = "plain" /\ Base[i] = "auth"
  /\ \/ AuthKind[i] = "right"
     \/ AuthKind[i] # "right" /\ ~conn.tried

CanSend(i, w) ==
  /\ conn.st \in {"open", "refused"}
  /\ conn.n < MaxCmds
  /\ <<i, w>> \notin Cannot
  /\ (w \in HttpW => conn.n = 0 /\ ~conn.authd /\ ~conn.tried /\ ~conn.early)   \* an HTTP request is a connection of its own

\* the connection after the step, given whether it is authenticated afterwards
After(i, w, a) ==
  [conn EXCEPT !.authd = a,
               !.tried = @ \/ (srv.requirepass /\ conn.st = "open" /\ ~conn.authd /\ w = "plain"
                               /\ Base[i] = "auth" /\ AuthKind[i] # "right"),
               !.sawRight = @ \/ (conn.st = "open" /\ RightAuth(i, w)),
               !.n = IF IsPrep(i, w) THEN @ ELSE @ + 1,
               !.st = IF conn.st = "refused" THEN "refused"
                      ELSE IF w \in HttpW \/ i \in Detaches THEN "done" ELSE "open"]

\* may the connection be authenticated after the step?
AuthdAfter(exp, i, w) ==
  IF exp.authd = "F" THEN {FALSE}
  ELSE IF conn.authd THEN {TRUE}
  ELSE IF srv.requirepass /\ conn.st = "open" /\ RightAuth(i, w) /\ w \notin HttpW THEN {TRUE, FALSE}
  ELSE {FALSE}

Cmd(i, w) ==
  /\ CanSend(i, w)
  /\ LET exp == Gate(srv, conn, i, w) IN
     \E r \in exp.rep, a \in AuthdAfter(exp, i, w),
        ch \in (IF exp.unchanged THEN {FALSE} ELSE BOOLEAN), lk \in (IF exp.nodata THEN {FALSE} ELSE BOOLEAN) :
       /\ conn' = After(i, w, a)
       /\ last' = [k |-> "cmd", peer |-> conn.peer, i |-> i, w |-> w, pre |-> conn, post |-> conn', exp |-> exp,
                   out |-> [rep |-> r, chg |-> ch, leak |-> lk]]
  /\ UNCHANGED srv

Next == (\E p \in {"lo", "nl"}, e \in BOOLEAN : Connect(p, e)) \/ (\E i \in Insts, w \in Wrappers : Cmd(i, w))
Spec == Init /\ [][Next]_vars
View == <<srv, conn>>

\* ---------------------------------------------------------------- the statement, checked on the machine
IsCmd == last'.k = "cmd"
Li == last'.i
Lw == last'.w
Lo == last'.out

TypeOK ==
  /\ srv \in Servers
  /\ conn.st \in {"none", "open", "refused", "done"} /\ conn.peer \in {"lo", "nl"} /\ conn.n \in 0..MaxCmds
  /\ conn.early \in BOOLEAN /\ (conn.early => srv.requirepass)
  /\ last.k \in {"init", "connect", "cmd"}
  /\ last.k # "init" => last.exp.rep # {} /\ last.exp.authd \in {"T", "F", "any"}
  /\ last.k = "cmd" => last.exp.rep \subseteq Classes /\ last.i \in Insts /\ last.w \in Wrappers

TypeOKStep == [][TypeOK']_vars   \* the VIEW hides "last": check its shape on every transition

\* A follower and a READONLY server reject every data-modifying command, issued directly or
\* from a script, and change nothing
StmtFollowerReadOnly ==
  [][(IsCmd /\ (srv.follower \/ srv.readOnly) /\ <<Li, Lw>> \in MutL) => (Lo.rep \in Rejected /\ ~Lo.chg)]_vars

\* a follower that has never caught up refuses to serve object reads and searches
StmtNeverCaughtUp ==
  [][(IsCmd /\ srv.follower /\ ~srv.caughtUpOnce /\ ObjRead(Li, Lw)) => (Lo.rep \in Rejected /\ ~Lo.leak)]_vars

\* with requirepass set, a connection that has not authenticated obtains no data and causes no
\* change through any command; only the exempt commands get a non-error reply
StmtUnauthenticated ==
  [][(IsCmd /\ srv.requirepass /\ ~conn.authd /\ Lw # "httpauth")
       => (~Lo.chg /\ ~Lo.leak /\ (Outer(Li, Lw) \notin Exempt => Lo.rep \in Rejected))]_vars

\* a wrong password never authenticates
StmtWrongPassword ==
  [][(IsCmd /\ srv.requirepass /\ ~conn.authd /\ ~RightAuth(Li, Lw)) => ~conn'.authd]_vars
AuthdOnlyByRightPassword == conn.authd => conn.sawRight

\* in protected mode a non-loopback peer is refused before any command is read
StmtProtected ==
  [][(srv.protected /\ conn'.peer = "nl" /\ last'.k # "init")
       => /\ last'.k = "connect" => Lo.rep = "denied"
          /\ last'.k = "cmd" => (Lo.rep = "closed" /\ ~Lo.chg /\ ~Lo.leak)]_vars
RefusedStaysRefused == [][conn.st = "refused" => conn'.st = "refused" /\ ~conn'.authd]_vars
=============================================================================
