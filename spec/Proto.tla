------------------------------- MODULE Proto -------------------------------
(***************************************************************************)
(* Wire framing of tile38 (property C16).                                  *)
(*                                                                         *)
(* A connection receives a byte stream in arbitrary TCP segments.  Every   *)
(* segment is appended to the carry-over buffer (PipelineReader.buf) and   *)
(* ParseOne is applied repeatedly; the unconsumed rest is the new carry.   *)
(* ParseOne is a transcription of                                          *)
(*    internal/server/server.go  readNextCommand (HTTP sniffing rule),     *)
(*                               readNextHTTPCommand, readNativeMessageLine*)
(*    redcon v1.6.2 resp.go      ReadNextCommand (RESP array),             *)
(*                               readTile38Command (native "$n payload"),  *)
(*                               readTelnetCommand (plain line, quotes)    *)
(* Recv is PipelineReader.ReadMessages followed by the message loop of     *)
(* netServe (reply transport / encoding, close after HTTP, error tail).    *)
(*                                                                         *)
(* Bytes are integers 0..255.  Every operator result is a uniformly typed  *)
(* record.  Lengths with more than 9 digits are the class "huge"           *)
(* (represented as 10^9: larger than any packet; TLC integers are 32 bit). *)
(*                                                                         *)
(* Named deviations (CONSTANTS NegBulk, Sniff): the intended design rejects *)
(* a negative bulk length and takes an LF-terminated line starting with     *)
(* G/P/O as a telnet command; the code as written indexes the packet with   *)
(* the negative length (D4) and holds such a line back until a CRLF comes.  *)
(***************************************************************************)
EXTENDS Integers, Sequences, FiniteSets, TLC

CONSTANTS
  Tok,        \* token (string) -> byte sequence: the concrete spelling of command words / arguments
  NegBulk,    \* "reject": a negative bulk length is a protocol error (intended)
              \* "index" : as coded in redcon.ReadNextCommand (`!ok || count <= 0`): the length indexes the packet
  Panics,     \* "recover": a panic of the parser on one command (index out of range) is caught around that command:
              \*            the commands read before it are answered, then protocol error and close (as coded since 9fc07cf)
              \* "crash"  : as coded before: the panic on the connection goroutine kills the process
  ReadBuf,    \* size of the per-connection socket read buffer (netServe: make([]byte, 0xFFFF)): one conn.Read returns at most this
  PktBuf,     \* size of PipelineReader.packet ([0xFFFF]byte): one ReadMessages call takes at most this many bytes of what
              \* conn.Read returned; the rest stays in the connection's InputStream until the NEXT conn.Read returns.
              \* As coded the two are equal, so nothing ever stays behind.
  Sniff       \* how a first byte G/P/O (possible HTTP request) is told from a telnet-style line:
              \* "line": by the first line, however terminated (intended: LF-terminated telnet lines are commands)
              \* "crlf": as coded in readNextCommand: only a CRLF ends the sniffed line, a bare LF is skipped,
              \*         so `PING<LF>` is held back until some later CRLF arrives

CR == 13  LF == 10  SP == 32  TAB == 9
STAR == 42  DOLLAR == 36  MINUS == 45  PLUS == 43  PERCENT == 37
DQ == 34  SQ == 39  BSL == 92  LBRACE == 123  SLASH == 47  COLON == 58  QMARK == 63
ChG == 71  ChP == 80  ChO == 79

Huge == 1000000000

Sub(p, a, b) == IF a > b THEN <<>> ELSE SubSeq(p, a, b)
From(p, a) == Sub(p, a, Len(p))
MinOf(S) == CHOOSE i \in S : \A j \in S : i <= j
\* first position >= from holding byte b, or 0
Find(p, b, from) == LET S == {i \in from..Len(p) : p[i] = b} IN IF S = {} THEN 0 ELSE MinOf(S)
IsDigit(b) == b \in 48..57
Lower(b) == IF b \in 65..90 THEN b + 32 ELSE b
LowerSeq(s) == [i \in 1..Len(s) |-> Lower(s[i])]

RECURSIVE DecVal(_)
DecVal(s) == IF s = <<>> THEN 0 ELSE DecVal(Sub(s, 1, Len(s) - 1)) * 10 + (s[Len(s)] - 48)

\* decimal digit strings of equal length: a <= b
RECURSIVE DigLeq(_, _)
DigLeq(a, b) == IF a = <<>> THEN TRUE ELSE IF a[1] # b[1] THEN a[1] < b[1] ELSE DigLeq(Tail(a), Tail(b))
MaxInt64 == <<57, 50, 50, 51, 51, 55, 50, 48, 51, 54, 56, 53, 52, 55, 55, 53, 56, 48, 55>>                 \* 9223372036854775807
MaxUint64 == <<49, 56, 52, 52, 54, 55, 52, 52, 48, 55, 51, 55, 48, 57, 53, 53, 49, 54, 49, 53>>            \* 18446744073709551615
Fits(d, max) == Len(d) < Len(max) \/ (Len(d) = Len(max) /\ DigLeq(d, max))

\* redcon parseInt: optional '-', digits only; the empty string and "-" are 0.
\* A number that does not fit a machine integer is not a length (the code wraps around instead).
\* `top` is the distance of a 19-digit value from 2^63-1 when that is below 800 (else 800): the parsers add the
\* packet position and 2 to the length, which wraps around for lengths that close to the largest integer
ParseInt(s) ==
  LET neg == Len(s) > 0 /\ s[1] = MINUS
      d   == IF neg THEN From(s, 2) ELSE s
  IN IF (\E i \in 1..Len(d) : ~IsDigit(d[i])) \/ ~Fits(d, MaxInt64) THEN [ok |-> FALSE, n |-> 0, top |-> 800]
     ELSE LET v == IF Len(d) > 9 THEN Huge ELSE DecVal(d)
              t == IF ~neg /\ Len(d) = 19 /\ Sub(d, 1, 16) = Sub(MaxInt64, 1, 16) THEN 807 - DecVal(Sub(d, 17, 19)) ELSE 800
          IN [ok |-> TRUE, n |-> IF neg THEN 0 - v ELSE v, top |-> t]
\* position + n + 2 exceeds the largest integer (pos: 0-based index of the first data byte, below 700)
Wraps(n, pos) == n.top < pos + 2
\* strconv.ParseUint(strings.TrimSpace(v), 10, 64) followed by int(n): at least one digit, digits only,
\* at most 2^64-1; values from 2^63 become negative by the conversion and are then treated like 0 (as coded)
TrimSp(s) == LET N == {i \in 1..Len(s) : s[i] \notin {SP, TAB, CR, LF, 11, 12}}
             IN IF N = {} THEN <<>> ELSE Sub(s, MinOf(N), CHOOSE i \in N : \A j \in N : j <= i)
ParseUint(s) ==
  IF s = <<>> \/ (\E i \in 1..Len(s) : ~IsDigit(s[i])) \/ ~Fits(s, MaxUint64) THEN [ok |-> FALSE, n |-> 0]
  ELSE [ok |-> TRUE, n |-> IF ~Fits(s, MaxInt64) THEN 0 ELSE IF Len(s) > 9 THEN Huge ELSE DecVal(s)]

\* ---- results of ParseOne ----
\* st: "ok" (one complete request, rest = leftover), "inc" (need more data), "err" (protocol error),
\*     "panic" (only with an as-coded deviation: the parser indexes outside the packet)
Res(st, kind, args, rest) == [st |-> st, kind |-> kind, args |-> args, rest |-> rest]
Inc(kind, p)  == Res("inc", kind, <<>>, p)
Err(kind, p)  == Res("err", kind, <<>>, p)
Pan(kind, p)  == Res("panic", kind, <<>>, p)

-----------------------------------------------------------------------------
(* RESP array  *<count>CRLF ( $<len>CRLF <len bytes> CRLF )^count           *)
RECURSIVE RespArgs(_, _, _, _, _)
RespArgs(p, i, j, cnt, acc) ==        \* i: position of the next '$'; j: arguments read so far
  IF i = Len(p) + 1 THEN Inc("resp", p)
  ELSE IF p[i] # DOLLAR THEN Err("resp", p)
  ELSE LET e == Find(p, LF, i) IN
    IF e = 0 THEN Inc("resp", p)
    ELSE IF p[e - 1] # CR THEN Err("resp", p)
    ELSE LET n == ParseInt(Sub(p, i + 1, e - 2))
             d == e + 1                      \* first data byte
         IN IF ~n.ok THEN Err("resp", p)
            ELSE IF n.n < 0 /\ NegBulk = "reject" THEN Err("resp", p)
            ELSE IF Wraps(n, 0) THEN Pan("resp", p)                        \* len(packet)-i >= n+2 wraps: packet[i+n]
            ELSE IF Len(p) - d + 1 >= n.n + 2
                 THEN IF d + n.n < 1 THEN Pan("resp", p)                   \* packet[i+n], negative index
                      ELSE IF p[d + n.n] # CR \/ p[d + n.n + 1] # LF THEN Err("resp", p)
                      ELSE IF n.n < 0 THEN Pan("resp", p)                  \* packet[i:i+n], inverted slice
                      ELSE LET acc2 == Append(acc, Sub(p, d, d + n.n - 1)) IN
                           IF j = cnt - 1 THEN Res("ok", "resp", acc2, From(p, d + n.n + 2))
                           ELSE RespArgs(p, d + n.n + 2, j + 1, cnt, acc2)
                 ELSE Inc("resp", p)

ParseResp(p) ==
  LET e == Find(p, LF, 2) IN
  IF e = 0 THEN Inc("resp", p)
  ELSE IF p[e - 1] # CR THEN Err("resp", p)
  ELSE LET c == ParseInt(Sub(p, 2, e - 2)) IN
       IF ~c.ok \/ c.n < 0 THEN Err("resp", p)
       ELSE IF c.n = 0 THEN Res("ok", "resp", <<>>, From(p, e + 1))
       ELSE RespArgs(p, e + 1, 0, c.n, <<>>)

-----------------------------------------------------------------------------
(* Native line tokenizer (readTile38Command / readNativeMessageLine): split *)
(* on blanks; a token starting with '{' takes the rest of the line; after   *)
(* SET ... STRING a rest of the form "..." is one argument without quotes.  *)
\* lone: what a rest consisting of one double quote after SET ... STRING does: "panic" in redcon.readTile38Command
\* (line[1:0]), "arg" in readNativeMessageLine (HTTP; an ordinary argument since 59d973f)
PanicArgs == << <<0 - 1>> >>
RECURSIVE NativeArgsL(_, _, _)
NativeArgsL(line, acc, lone) ==
  IF line = <<>> THEN acc
  ELSE IF line[1] = LBRACE THEN Append(acc, line)
  ELSE IF /\ line = <<DQ>> /\ lone = "panic" /\ Len(acc) > 0
          /\ LowerSeq(acc[1]) = <<115, 101, 116>> /\ LowerSeq(acc[Len(acc)]) = <<115, 116, 114, 105, 110, 103>>
       THEN PanicArgs
  ELSE IF /\ Len(line) > 1 /\ line[1] = DQ /\ line[Len(line)] = DQ /\ Len(acc) > 0
          /\ LowerSeq(acc[1]) = <<115, 101, 116>>                                   \* "set"
          /\ LowerSeq(acc[Len(acc)]) = <<115, 116, 114, 105, 110, 103>>             \* "string"
       THEN Append(acc, Sub(line, 2, Len(line) - 1))
  ELSE LET s == Find(line, SP, 1) IN
       IF s = 0 THEN Append(acc, line)
       ELSE NativeArgsL(From(line, s + 1), IF s > 1 THEN Append(acc, Sub(line, 1, s - 1)) ELSE acc, lone)
NativeArgs(line, acc) == NativeArgsL(line, acc, "arg")

(* Native frame  $<len> <len bytes>CRLF  *)
ParseNative(p) ==
  LET s == Find(p, SP, 2) IN
  IF s = 0 THEN Inc("native", p)
  ELSE LET n == ParseInt(Sub(p, 2, s - 1))
           d == s + 1
       IN IF ~n.ok \/ n.n < 0 THEN Err("native", p)
          ELSE IF Wraps(n, d - 1) THEN Pan("native", p)                   \* len(packet) >= i+n+2 wraps: packet[i+n]
          ELSE IF Len(p) >= (d - 1) + n.n + 2
               THEN IF p[d + n.n] # CR \/ p[d + n.n + 1] # LF THEN Err("native", p)
                    ELSE LET a == NativeArgsL(Sub(p, d, d + n.n - 1), <<>>, "panic") IN
                         IF a = PanicArgs THEN Pan("native", p)
                         ELSE Res("ok", "native", a, From(p, d + n.n + 2))
               ELSE Inc("native", p)

-----------------------------------------------------------------------------
(* Telnet-style line: up to the first LF, an optional CR before it is       *)
(* dropped; blanks separate arguments; '...' and "..." quote (only at the   *)
(* start of an argument, must be followed by a blank or the end), inside    *)
(* quotes backslash escapes the next byte (n, r, t are translated).         *)
Unesc(c) == IF c = 110 THEN LF ELSE IF c = 114 THEN CR ELSE IF c = 116 THEN TAB ELSE c

\* inside a quote opened with q: returns [ok, arg, next] (next: position after the closing quote)
RECURSIVE TelQuoted(_, _, _, _, _)
TelQuoted(line, i, q, esc, acc) ==
  IF i > Len(line) THEN [ok |-> FALSE, arg |-> <<>>, next |-> 0]
  ELSE LET c == line[i] IN
       IF esc THEN TelQuoted(line, i + 1, q, FALSE, Append(acc, Unesc(c)))
       ELSE IF c = q THEN [ok |-> TRUE, arg |-> acc, next |-> i + 1]
       ELSE IF c = BSL THEN TelQuoted(line, i + 1, q, TRUE, acc)
       ELSE TelQuoted(line, i + 1, q, FALSE, Append(acc, c))

\* line: remaining text (starts at an argument boundary); returns [ok, args]
RECURSIVE TelArgs(_, _)
TelArgs(line, acc) ==
  IF line = <<>> THEN [ok |-> TRUE, args |-> acc]
  ELSE IF line[1] = SP THEN TelArgs(From(line, 2), acc)
  ELSE IF line[1] \in {DQ, SQ} THEN
       LET r == TelQuoted(line, 2, line[1], FALSE, <<>>) IN
       IF ~r.ok THEN [ok |-> FALSE, args |-> <<>>]
       ELSE IF r.next <= Len(line) /\ line[r.next] # SP THEN [ok |-> FALSE, args |-> <<>>]
       ELSE TelArgs(From(line, r.next), Append(acc, r.arg))
  ELSE LET S == {i \in 1..Len(line) : line[i] \in {SP, DQ, SQ}} IN
       IF S = {} THEN [ok |-> TRUE, args |-> Append(acc, line)]
       ELSE LET s == MinOf(S) IN
            IF line[s] # SP THEN [ok |-> FALSE, args |-> <<>>]           \* a quote inside a word
            ELSE TelArgs(From(line, s + 1), Append(acc, Sub(line, 1, s - 1)))

ParseTelnet(p) ==
  LET e == Find(p, LF, 1) IN
  IF e = 0 THEN Inc("telnet", p)
  ELSE LET line == IF e > 1 /\ p[e - 1] = CR THEN Sub(p, 1, e - 2) ELSE Sub(p, 1, e - 1)
           r == TelArgs(line, <<>>)
       IN IF ~r.ok THEN Err("telnet", p) ELSE Res("ok", "telnet", r.args, From(p, e + 1))

-----------------------------------------------------------------------------
(* HTTP request: request line "METHOD /path HTTP/x.y", header lines, empty  *)
(* line, optional body of Content-Length bytes; the command is the native   *)
(* tokenization of  unescape(path without '/') ++ body.                     *)
\* position of the LF of the first CRLF at or after position `from`+1 (readcrlfline scans from the 2nd byte), or 0
FindCRLF(p, from) == LET S == {i \in (from + 1)..Len(p) : p[i] = LF /\ p[i - 1] = CR}
                     IN IF S = {} THEN 0 ELSE MinOf(S)

\* header section: returns [st |-> "ok"/"inc", lines, body (position of the first byte after the empty line)]
RECURSIVE HdrLines(_, _, _)
HdrLines(p, i, acc) ==                      \* i: first position of the next line
  LET e == FindCRLF(p, i) IN
  IF e = 0 THEN [st |-> "inc", lines |-> <<>>, body |-> 0]
  ELSE LET line == Sub(p, i, e - 2) IN
       IF line = <<>> THEN [st |-> "ok", lines |-> acc, body |-> e + 1]
       ELSE HdrLines(p, e + 1, Append(acc, line))

RECURSIVE SplitSp(_, _)
SplitSp(s, acc) == LET k == Find(s, SP, 1) IN
                   IF k = 0 THEN Append(acc, s) ELSE SplitSp(From(s, k + 1), Append(acc, Sub(s, 1, k - 1)))

HexVal(b) == IF b \in 48..57 THEN b - 48 ELSE IF b \in 65..70 THEN b - 55 ELSE IF b \in 97..102 THEN b - 87 ELSE 0 - 1
\* url.QueryUnescape: '+' is a blank, %XX a byte, anything else after % is an error
RECURSIVE UrlUnescape(_, _)
UrlUnescape(s, acc) ==
  IF s = <<>> THEN [ok |-> TRUE, s |-> acc]
  ELSE IF s[1] = PLUS THEN UrlUnescape(From(s, 2), Append(acc, SP))
  ELSE IF s[1] = PERCENT THEN
       IF Len(s) < 3 \/ HexVal(s[2]) < 0 \/ HexVal(s[3]) < 0 THEN [ok |-> FALSE, s |-> <<>>]
       ELSE UrlUnescape(From(s, 4), Append(acc, HexVal(s[2]) * 16 + HexVal(s[3])))
  ELSE UrlUnescape(From(s, 2), Append(acc, s[1]))

\* headerValue(hdr, name): case-insensitive name, then ':', then blanks; position of the value or 0
HdrValuePos(h, name) ==
  IF Len(h) > Len(name) /\ LowerSeq(Sub(h, 1, Len(name))) = name /\ h[Len(name) + 1] = COLON
  THEN LET N == {i \in (Len(name) + 2)..Len(h) : h[i] \notin {SP, TAB}} IN IF N = {} THEN Len(h) + 1 ELSE MinOf(N)
  ELSE 0
HContentLength == <<99, 111, 110, 116, 101, 110, 116, 45, 108, 101, 110, 103, 116, 104>>     \* "content-length"
MGET == <<71, 69, 84>>   MPOST == <<80, 79, 83, 84>>   MOPTIONS == <<79, 80, 84, 73, 79, 78, 83>>

\* the last Content-Length header wins; [ok, n]
RECURSIVE ContentLength(_, _, _)
ContentLength(lines, i, cur) ==
  IF i > Len(lines) THEN [ok |-> TRUE, n |-> cur]
  ELSE LET v == HdrValuePos(lines[i], HContentLength) IN
       IF v = 0 THEN ContentLength(lines, i + 1, cur)
       ELSE LET u == ParseUint(TrimSp(From(lines[i], v))) IN
            IF ~u.ok THEN [ok |-> FALSE, n |-> 0] ELSE ContentLength(lines, i + 1, u.n)

ParseHTTP(p) ==
  LET h == HdrLines(p, 1, <<>>) IN
  IF h.st = "inc" THEN Inc("http", p)
  ELSE LET parts == SplitSp(h.lines[1], <<>>) IN
    IF Len(parts) # 3 THEN Err("http", p)
    ELSE IF parts[1] = MOPTIONS THEN Inc("http", p)       \* CORS preflight: answered out of band, not a command (not modelled)
    ELSE IF parts[2] = <<>> \/ parts[2][1] # SLASH THEN Err("http", p)
    ELSE LET u == UrlUnescape(From(parts[2], 2), <<>>) IN
      IF ~u.ok THEN Err("http", p)
      ELSE IF parts[1] # MGET /\ parts[1] # MPOST THEN Err("http", p)
      ELSE LET cl == ContentLength(h.lines, 2, 0) IN
        IF ~cl.ok THEN Err("http", p)
        ELSE IF cl.n > 0 /\ Len(p) - h.body + 1 < cl.n THEN Inc("http", p)
        ELSE LET path == IF cl.n > 0 THEN u.s \o Sub(p, h.body, h.body + cl.n - 1) ELSE u.s
                 rest == IF cl.n > 0 THEN From(p, h.body + cl.n) ELSE From(p, h.body)
             IN Res("ok", "http", NativeArgs(path, <<>>), rest)

-----------------------------------------------------------------------------
(* readNextCommand: the HTTP sniffing rule, then redcon.ReadNextCommand.    *)
HTTPMark == <<SP, 72, 84, 84, 80, SLASH>>            \* " HTTP/"
ParseOneS(p, sniff) ==        \* p non-empty
  IF p[1] \in {ChG, ChP, ChO} THEN
       LET e == IF sniff = "crlf" THEN FindCRLF(p, 1)      \* first line that ends in CRLF (a bare LF does not end it)
                ELSE Find(p, LF, 2)                        \* first line
       IN IF e = 0 THEN Inc("resp", p)
          ELSE IF e > 11 /\ p[e - 1] = CR /\ Sub(p, e - 10, e - 5) = HTTPMark THEN ParseHTTP(p)
          ELSE ParseTelnet(p)
  ELSE IF p[1] = STAR THEN ParseResp(p)
  ELSE IF p[1] = DOLLAR THEN ParseNative(p)
  ELSE ParseTelnet(p)
ParseOne(p) == ParseOneS(p, Sniff)

-----------------------------------------------------------------------------
(* PipelineReader.ReadMessages on  data = carry \o segment                  *)
\* [st |-> "ok"/"err"/"panic", msgs, rest]
RECURSIVE ReadMessages(_, _, _)
ReadMessages(data, msgs, sniff) ==
  IF data = <<>> THEN [st |-> "ok", msgs |-> msgs, rest |-> <<>>]
  ELSE LET r == ParseOneS(data, sniff) IN
    CASE r.st = "panic" /\ Panics = "crash" -> [st |-> "panic", msgs |-> <<>>, rest |-> data]
      [] r.st = "panic" -> [st |-> "err", msgs |-> msgs, rest |-> data]       \* recovered around this command
      [] r.st = "err"   -> [st |-> "err", msgs |-> msgs, rest |-> data]
      [] r.st = "inc"   -> [st |-> "ok", msgs |-> msgs, rest |-> data]
      [] r.st = "ok"    ->
           IF r.kind = "http" /\ r.args = <<>>
             THEN [st |-> "err", msgs |-> <<>>, rest |-> data]      \* `return nil, errInvalidHTTP`: the batch is dropped
           ELSE IF r.args = <<>> THEN ReadMessages(r.rest, msgs, sniff)    \* empty line / *0: nothing to answer
           ELSE ReadMessages(r.rest, Append(msgs, [kind |-> r.kind, args |-> r.args]), sniff)

(* The connection: carry-over buffer, replies so far, sticky output type    *)
(* (client.outputType), transport/encoding of the last answered message     *)
(* (for the error tail), closed, crashed.                                   *)
\* a reply: x = "cmd" (answer to args), "bad500" (empty command name), "errtail" (protocol error, then close)
Rep(x, t, enc, args) == [x |-> x, t |-> t, enc |-> enc, args |-> args]
\* carry: PipelineReader.buf (an incomplete command); inb: InputStream.b (bytes conn.Read returned that ReadMessages
\* has not taken yet)
InitConn == [carry |-> <<>>, inb |-> <<>>, out |-> <<>>, otype |-> "none", lastT |-> "none", lastEnc |-> "none",
             closed |-> FALSE, crashed |-> FALSE]

Transport(kind) == IF kind \in {"resp", "telnet"} THEN "resp" ELSE kind        \* Message.ConnType
DefaultEnc(kind) == IF kind \in {"resp", "telnet"} THEN "resp" ELSE "json"    \* Message.OutputType

\* the message loop of netServe over one batch
RECURSIVE Handle(_, _, _)
Handle(c, msgs, i) ==
  IF i > Len(msgs) THEN c
  ELSE LET m == msgs[i]
           enc == IF c.otype # "none" THEN c.otype ELSE DefaultEnc(m.kind)
       IN IF m.args[1] = <<>>      \* msg.Command() == "": "HTTP/1.1 500 Bad Request", rest of the batch is skipped
          THEN [c EXCEPT !.out = Append(@, Rep("bad500", "raw", "none", <<>>))]
          ELSE LET c2 == [c EXCEPT !.out = Append(@, Rep("cmd", Transport(m.kind), enc, m.args)),
                                   !.otype = enc, !.lastT = Transport(m.kind), !.lastEnc = enc]
               IN IF m.kind = "http" THEN [c2 EXCEPT !.closed = TRUE]         \* one request per HTTP connection
                  ELSE Handle(c2, msgs, i + 1)

\* one conn.Read returns `seg` (at most ReadBuf bytes): InputStream.Begin, one ReadMessages over the first PktBuf
\* bytes, InputStream.End keeps the rest
RecvOne(c, seg, sniff) ==
  IF c.closed \/ c.crashed THEN c
  ELSE LET data == c.inb \o seg
           pkt  == Sub(data, 1, IF Len(data) < PktBuf THEN Len(data) ELSE PktBuf)
           rest == From(data, PktBuf + 1)
           b    == ReadMessages(c.carry \o pkt, <<>>, sniff) IN
       IF b.st = "panic" THEN [c EXCEPT !.crashed = TRUE]
       ELSE LET c1 == Handle([c EXCEPT !.carry = b.rest, !.inb = rest], b.msgs, 1) IN
            IF c1.closed \/ b.st = "ok" THEN c1
            ELSE \* protocol error: answered only when the last answered message came over RESP/telnet; then close
                 [c1 EXCEPT !.closed = TRUE,
                            !.out = IF c1.lastT = "resp" THEN Append(@, Rep("errtail", "resp", c1.lastEnc, <<>>)) ELSE @]
\* one TCP segment arrives: the read loop takes it in pieces of at most ReadBuf bytes
RECURSIVE RecvS(_, _, _)
RecvS(c, seg, sniff) ==
  IF Len(seg) <= ReadBuf THEN RecvOne(c, seg, sniff)
  ELSE RecvS(RecvOne(c, Sub(seg, 1, ReadBuf), sniff), From(seg, ReadBuf + 1), sniff)

Recv(c, seg) == RecvS(c, seg, Sniff)
RecvAll(bytes) == Recv(InitConn, bytes)        \* the whole stream in one segment

\* deliver the stream cut at the given segment lengths
RECURSIVE RecvCuts(_, _, _)
RecvCuts(c, bytes, lens) ==
  IF lens = <<>> THEN c
  ELSE RecvCuts(Recv(c, Sub(bytes, 1, lens[1])), From(bytes, lens[1] + 1), Tail(lens))

-----------------------------------------------------------------------------
(* Client side: a frame is [k |-> syntax, a |-> sequence of tokens].        *)
(* Enc is what a well-behaved client sends.                                 *)
RECURSIVE Dec(_)
Dec(n) == IF n < 10 THEN <<48 + n>> ELSE Dec(n \div 10) \o <<48 + (n % 10)>>
CRLF == <<CR, LF>>
RECURSIVE Join(_, _, _)
Join(args, sep, i) == IF i > Len(args) THEN <<>>
                      ELSE (IF i > 1 THEN sep ELSE <<>>) \o args[i] \o Join(args, sep, i + 1)
RECURSIVE Flat(_)
Flat(ss) == IF ss = <<>> THEN <<>> ELSE ss[1] \o Flat(Tail(ss))

Bytes(a) == [i \in 1..Len(a) |-> Tok[a[i]]]
NeedsQuote(b) == b = <<>> \/ \E i \in 1..Len(b) : b[i] \in {SP, DQ, SQ}
\* telnet quoting: "..." with backslash before '"' and '\'
TelQuote(b) == IF ~NeedsQuote(b) THEN b
               ELSE <<DQ>> \o Flat([i \in 1..Len(b) |-> IF b[i] \in {DQ, BSL} THEN <<BSL, b[i]>> ELSE <<b[i]>>]) \o <<DQ>>
\* URL form of the command line for an HTTP GET: blanks become '+', '+' and '%' are escaped
UrlByte(x) == IF x = SP THEN <<PLUS>> ELSE IF x = PLUS THEN <<PERCENT, 50, 66>> ELSE IF x = PERCENT THEN <<PERCENT, 50, 53>> ELSE <<x>>
UrlEsc(b) == Flat([i \in 1..Len(b) |-> UrlByte(b[i])])
HTTP11 == <<SP, 72, 84, 84, 80, SLASH, 49, 46, 49>>                         \* " HTTP/1.1"
CLHdr == <<67, 111, 110, 116, 101, 110, 116, 45, 76, 101, 110, 103, 116, 104, COLON, SP>>   \* "Content-Length: "

Enc(f) ==
  LET b == Bytes(f.a)
      line == Join(b, <<SP>>, 1)
  IN CASE f.k = "resp"   -> <<STAR>> \o Dec(Len(b)) \o CRLF \o
                            Flat([i \in 1..Len(b) |-> <<DOLLAR>> \o Dec(Len(b[i])) \o CRLF \o b[i] \o CRLF])
       [] f.k = "telnet" -> Join([i \in 1..Len(b) |-> TelQuote(b[i])], <<SP>>, 1) \o CRLF
       [] f.k = "tellf"  -> Join([i \in 1..Len(b) |-> TelQuote(b[i])], <<SP>>, 1) \o <<LF>>
       [] f.k = "native" -> <<DOLLAR>> \o Dec(Len(line)) \o <<SP>> \o line \o CRLF
       [] f.k = "hget"   -> MGET \o <<SP, SLASH>> \o UrlEsc(line) \o HTTP11 \o CRLF \o CRLF
       [] f.k = "hpost"  -> MPOST \o <<SP, SLASH>> \o HTTP11 \o CRLF \o CLHdr \o Dec(Len(line)) \o CRLF \o CRLF \o line

\* which frames a syntax can carry: native / HTTP lines cannot hold blanks inside or empty arguments
Encodable(f) == f.k \in {"resp", "telnet", "tellf"} \/ \A i \in 1..Len(f.a) : ~NeedsQuote(Tok[f.a[i]])
IsHTTP(f) == f.k \in {"hget", "hpost"}
KindOf(f) == CASE f.k \in {"telnet", "tellf"} -> "telnet" [] f.k \in {"hget", "hpost"} -> "http" [] OTHER -> f.k

-----------------------------------------------------------------------------
(* What the commands answer (tokens): a tiny store so that the order and    *)
(* the number of replies are observable.  r = [c, v]:                       *)
(*   pong | bulk v | ok | nil | err                                         *)
TokOf(b) == IF \E t \in DOMAIN Tok : Tok[t] = b THEN CHOOSE t \in DOMAIN Tok : Tok[t] = b ELSE "?"
R(c, v) == [c |-> c, v |-> v]
\* store: id token -> value token ("" = absent)
Exec(store, a) ==       \* a: sequence of tokens
  CASE a = <<"PING">>                                        -> [s |-> store, r |-> R("pong", "")]
    [] Len(a) = 2 /\ a[1] = "ECHO"                           -> [s |-> store, r |-> R("bulk", a[2])]
    [] Len(a) = 5 /\ a[1] = "SET" /\ a[2] = "K" /\ a[4] = "STRING" /\ a[3] \in DOMAIN store
                                                             -> [s |-> [store EXCEPT ![a[3]] = a[5]], r |-> R("ok", "")]
    [] Len(a) = 3 /\ a[1] = "GET" /\ a[2] = "K" /\ a[3] \in DOMAIN store
                                                             -> [s |-> store, r |-> IF store[a[3]] = "" THEN R("nil", "") ELSE R("bulk", store[a[3]])]
    [] OTHER                                                 -> [s |-> store, r |-> R("err", "")]
\* the JSON rendering has no nil: a missing object is an error
Render(enc, r) == IF enc = "json" /\ r.c = "nil" THEN R("err", "") ELSE r

\* expected reply sequence of a connection: [x, t, enc, c, v] per reply
RECURSIVE Replies(_, _, _, _)
Replies(out, i, store, acc) ==
  IF i > Len(out) THEN acc
  ELSE LET o == out[i] IN
       IF o.x # "cmd" THEN Replies(out, i + 1, store, Append(acc, [x |-> o.x, t |-> o.t, enc |-> o.enc, c |-> "err", v |-> ""]))
       ELSE LET e == Exec(store, [k \in 1..Len(o.args) |-> TokOf(o.args[k])])
                r == Render(o.enc, e.r)
            IN Replies(out, i + 1, e.s, Append(acc, [x |-> "cmd", t |-> o.t, enc |-> o.enc, c |-> r.c, v |-> r.v]))
=============================================================================
