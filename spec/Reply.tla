------------------------------- MODULE Reply -------------------------------
(***************************************************************************)
(* Replies of tile38 in its two output modes (property C17).               *)
(*                                                                         *)
(* A connection is in one output mode, RESP or JSON.  The mode starts as   *)
(* the default of the transport (RESP array and telnet lines: RESP; native *)
(* "$len " frames and HTTP requests: JSON), is changed only by              *)
(* OUTPUT json|resp, and the reply to that very command is already         *)
(* rendered in the new mode (output.go sets msg.OutputType before the      *)
(* reply is built).  An HTTP connection serves one request.                *)
(*                                                                         *)
(* A reply is given in normal form by the harness, which parses the raw    *)
(* bytes with its own parsers and knows nothing about tile38:              *)
(*   RESP value  [t, s, u, n, j, je, a]   t in simple error int bulk nil   *)
(*               arr none; s payload; u payload with invalid UTF-8         *)
(*               replaced; n payload read as a number; j / je payload read *)
(*               as one JSON document; a elements                          *)
(*   JSON value  [t, s, l, n, i, v, a, k] t in obj arr str num bool null   *)
(*               none; s string / literal; l string on one line; n         *)
(*               canonical number; i floor; v small integer value; a       *)
(*               elements or member values; k member names                 *)
(* This module says (1) when a reading is a well-formed reply of a mode    *)
(* and (2) when a RESP reply and a JSON reply to the same command in the   *)
(* same state convey the same result: Agree.  Agree is written from the    *)
(* JSON/RESP switch of every cmdXXX of internal/server; where the JSON     *)
(* rendering conveys less than the RESP one (DEL: ok versus 0/1) any value *)
(* of the richer side is accepted, and the other way round.                *)
(* Values that differ between two servers or two instants (process ids,    *)
(* memory statistics, client addresses) are compared by presence and type. *)
(***************************************************************************)
EXTENDS Integers, Sequences, FiniteSets, TLC

-----------------------------------------------------------------------------
(* JSON nodes                                                               *)
HasM(d, m)  == d.t = "obj" /\ \E x \in 1..Len(d.k) : d.k[x] = m
CntM(d, m)  == Cardinality({x \in 1..Len(d.k) : d.k[x] = m})
M(d, m)     == d.a[CHOOSE x \in 1..Len(d.k) : d.k[x] = m]
IsStr(j)    == j.t = "str"
IsNum(j)    == j.t = "num"
JTrue(j)    == j.t = "bool" /\ j.s = "true"
JFalse(j)   == j.t = "bool" /\ j.s = "false"

\* structural equality of JSON values, numbers by value
RECURSIVE JEq(_, _)
JEq(x, y) ==
  /\ x.t = y.t
  /\ CASE x.t = "num" -> x.n = y.n
       [] x.t \in {"str", "bool", "null"} -> x.s = y.s
       [] x.t = "arr" -> Len(x.a) = Len(y.a) /\ \A e \in 1..Len(x.a) : JEq(x.a[e], y.a[e])
       [] x.t = "obj" -> x.k = y.k /\ \A e \in 1..Len(x.a) : JEq(x.a[e], y.a[e])
       [] OTHER -> FALSE

-----------------------------------------------------------------------------
(* Well-formedness                                                          *)

\* a JSON-mode reply: one document (decided by the parser: jerr), an object with exactly one
\* boolean "ok", and one string "err" when ok is false
WfDoc(d) ==
  /\ d.t = "obj"
  /\ CntM(d, "ok") = 1
  /\ M(d, "ok").t = "bool"
  /\ CntM(d, "err") <= 1
  /\ (JFalse(M(d, "ok")) => (CntM(d, "err") = 1 /\ IsStr(M(d, "err"))))
  /\ CntM(d, "elapsed") <= 1

Ok(d)  == JTrue(M(d, "ok"))
Err(d) == M(d, "err")

\* the members that carry the result
Payload(d) == SelectSeq(d.k, LAMBDA m : m \notin {"ok", "elapsed"})

WfJsonReading(x) == x.fwf /\ x.jerr = "" /\ WfDoc(x.jv)
WfRespReading(x) == x.fwf /\ x.rv.t # "none"

-----------------------------------------------------------------------------
(* The output mode of a connection                                          *)
DefaultMode(tr) == IF tr \in {"resp", "telnet"} THEN "resp" ELSE "json"
Stream(tr)      == tr \notin {"http", "httppost"}

\* the mode the reply to this command is rendered in, on a connection that was in mode m
ReplyMode(m, largs) ==
  IF Len(largs) = 2 /\ largs[1] = "output" /\ largs[2] \in {"json", "resp"} THEN largs[2] ELSE m

-----------------------------------------------------------------------------
(* Leaves                                                                   *)
IsBulk(r)   == r.t = "bulk"
IsArr(r)    == r.t = "arr"
IsInt(r)    == r.t = "int"
IsNil(r)    == r.t = "nil"
OkLike(r)   == (r.t = "simple" /\ r.s = "OK") \/ (r.t = "bulk" /\ r.s = "OK")

\* a string: JSON cannot hold invalid UTF-8, it shows U+FFFD instead
SA(r, j) == r.t \in {"bulk", "simple"} /\ IsStr(j) /\ r.u = j.s
\* a number
NA(r, j) == IsNum(j) /\ ((IsBulk(r) /\ r.n # "" /\ r.n = j.n) \/ (IsInt(r) /\ r.s = j.n))
\* a coordinate or distance: NaN and the infinities have no JSON number; the JSON reply shows the text of
\* the RESP reply as a string, or null (GeoJSON members)
NonFinite(r) == IsBulk(r) /\ r.n \in {"NaN", "+Inf", "-Inf"}
CA(r, j) == NA(r, j) \/ (NonFinite(r) /\ ((IsStr(j) /\ j.s = r.s) \/ j.t = "null"))
\* an integer
IA(r, j) == IsNum(j) /\ IsInt(r) /\ r.s = j.n
\* 0/1 versus false/true
BA(r, j) == IsInt(r) /\ ((r.s = "1" /\ JTrue(j)) \/ (r.s = "0" /\ JFalse(j)))
\* a field value: RESP shows the stored text, JSON a number, a string, true/false/null or embedded JSON
FV(r, j) ==
  /\ IsBulk(r)
  /\ CASE j.t = "num" -> r.n # "" /\ r.n = j.n
       [] j.t = "str" -> r.u = j.s
       [] j.t \in {"bool", "null"} -> r.s = j.s
       [] j.t \in {"obj", "arr"} -> r.j.t = j.t /\ JEq(r.j, j)
       [] OTHER -> FALSE
\* a value printed with %v (STATS, SERVER, CONFIG GET) versus its JSON encoding
SV(r, j) ==
  /\ IsBulk(r)
  /\ CASE j.t = "num" -> r.n # "" /\ r.n = j.n
       [] j.t = "str" -> r.u = j.s
       [] j.t = "bool" -> r.s = j.s
       [] OTHER -> FALSE
\* same kind of value, content not compared (values that differ between servers / instants)
SVType(r, j) ==
  /\ IsBulk(r)
  /\ CASE j.t = "num" -> r.n # ""
       [] j.t = "str" -> TRUE
       [] j.t = "bool" -> r.s \in {"true", "false"}
       [] OTHER -> FALSE

\* an object: geometry as GeoJSON (a JSON value inside the JSON reply, JSON text in RESP), a string object as string
OA(r, j) ==
  /\ IsBulk(r)
  /\ \/ IsStr(j) /\ r.u = j.s
     \/ j.t = "obj" /\ r.j.t = "obj" /\ JEq(r.j, j)
\* a point: [lat, lon] or [lat, lon, z] versus {"lat","lon"} / {"lat","lon","z"}
PA(r, j) ==
  /\ IsArr(r) /\ j.t = "obj"
  /\ \/ Len(r.a) = 2 /\ j.k = <<"lat", "lon">>
     \/ Len(r.a) = 3 /\ j.k = <<"lat", "lon", "z">>
  /\ \A e \in 1..Len(r.a) : CA(r.a[e], j.a[e])
\* bounds: [[minlat, minlon], [maxlat, maxlon]] versus {"sw":{"lat","lon"},"ne":{"lat","lon"}}
LatLon(r, j) == IsArr(r) /\ Len(r.a) = 2 /\ j.t = "obj" /\ j.k = <<"lat", "lon">> /\ CA(r.a[1], j.a[1]) /\ CA(r.a[2], j.a[2])
BoundsA(r, j) ==
  /\ IsArr(r) /\ Len(r.a) = 2 /\ j.t = "obj" /\ j.k = <<"sw", "ne">>
  /\ LatLon(r.a[1], j.a[1]) /\ LatLon(r.a[2], j.a[2])
\* the payload of GET / SET ... RETURN / one element of a search, by kind
KindA(kind, r, j) ==
  CASE kind = "object" -> OA(r, j)
    [] kind = "point"  -> PA(r, j)
    [] kind = "bounds" -> BoundsA(r, j)
    [] kind = "hash"   -> SA(r, j)
    [] OTHER -> FALSE
Kinds == {"object", "point", "bounds", "hash"}

\* a flat RESP array name, value, name, value ... versus a JSON object, values related by V
FlatMap(r, j, V(_, _)) ==
  /\ IsArr(r) /\ j.t = "obj" /\ Len(r.a) = 2 * Len(j.k)
  /\ \A e \in 1..Len(j.k) : IsBulk(r.a[2 * e - 1]) /\ r.a[2 * e - 1].u = j.k[e] /\ V(r.a[2 * e], j.a[e])
\* the fields of one object
FieldsA(r, j) == FlatMap(r, j, FV)
\* an array of strings
StrArr(r, j) == IsArr(r) /\ j.t = "arr" /\ Len(r.a) = Len(j.a) /\ \A e \in 1..Len(j.a) : SA(r.a[e], j.a[e])

-----------------------------------------------------------------------------
(* Errors                                                                   *)
\* writeErr: the JSON reply carries the message, the RESP reply "ERR " + message unless the message
\* starts with an upper-case word of its own; "invalid number of arguments" is reworded the Redis way
ErrAgree(outer, r, e) ==
  /\ r.t = "error" /\ IsStr(e)
  /\ \/ r.u = e.l                      \* (a RESP error is one line: control bytes show as blanks)
     \/ r.u = "ERR " \o e.l
     \/ e.s = "invalid number of arguments" /\ r.s = "ERR wrong number of arguments for '" \o outer \o "' command"

NotFoundErr(e) == IsStr(e) /\ e.s \in {"key not found", "id not found"}

-----------------------------------------------------------------------------
(* Searches: SCAN SEARCH NEARBY WITHIN INTERSECTS                           *)
SearchKinds == {"ids", "objects", "points", "bounds", "hashes"}
ItemKind(k) == CASE k = "objects" -> "object" [] k = "points" -> "point" [] k = "bounds" -> "bounds" [] k = "hashes" -> "hash" [] OTHER -> "id"

IsZeroJ(j) == j.t = "num" /\ j.s = "0"
\* positions of the non-zero values of a JSON field-value array
NonZero(vals) == SelectSeq([x \in 1..Len(vals) |-> x], LAMBDA x : ~IsZeroJ(vals[x]))

\* fields of one search element: RESP lists the non-zero fields as name, value pairs; JSON lists the values
\* of all field names of the page (the top-level "fields" array), zero for a field the object does not have
ItemFields(r, names, vals) ==
  LET nz == NonZero(vals) IN
  /\ Len(names) = Len(vals)
  /\ IsArr(r) /\ Len(r.a) = 2 * Len(nz)
  /\ \A e \in 1..Len(nz) : /\ SA(r.a[2 * e - 1], names[nz[e]])
                           /\ FV(r.a[2 * e], vals[nz[e]])

ItemA(kind, r, j, names) ==
  IF kind = "id"
  THEN \/ SA(r, j)
       \/ /\ IsArr(r) /\ Len(r.a) = 2 /\ j.t = "obj" /\ j.k = <<"id", "distance">>
          /\ SA(r.a[1], j.a[1]) /\ CA(r.a[2], j.a[2])
  ELSE LET hasd == HasM(j, "distance")
           hasf == HasM(j, "fields")
           vals == IF hasf THEN M(j, "fields").a ELSE <<>>
           nz   == NonZero(vals)
           want == 2 + (IF Len(nz) > 0 THEN 1 ELSE 0) + (IF hasd THEN 1 ELSE 0)
       IN /\ IsArr(r) /\ j.t = "obj"
          /\ j.k = <<"id", kind>> \o (IF hasf THEN <<"fields">> ELSE <<>>) \o (IF hasd THEN <<"distance">> ELSE <<>>)
          /\ (hasf => M(j, "fields").t = "arr")
          /\ Len(r.a) = want
          /\ SA(r.a[1], M(j, "id"))
          /\ KindA(kind, r.a[2], M(j, kind))
          /\ (Len(nz) > 0 => ItemFields(r.a[3], names, vals))
          /\ (hasd => CA(r.a[want], M(j, "distance")))

SearchA(r, d) ==
  LET p == Payload(d)
      hasn == Len(p) > 0 /\ p[1] = "fields"
      names == IF hasn THEN M(d, "fields").a ELSE <<>>
      q == IF hasn THEN Tail(p) ELSE p
  IN IF q = <<"count", "cursor">>
     THEN ~hasn /\ IA(r, M(d, "count"))                       \* COUNT
     ELSE /\ Len(q) = 3 /\ q[1] \in SearchKinds /\ q[2] = "count" /\ q[3] = "cursor"
          /\ (hasn => M(d, "fields").t = "arr")
          /\ LET items == M(d, q[1]) IN
             /\ items.t = "arr"
             /\ IsArr(r) /\ Len(r.a) = 2
             /\ IA(r.a[1], M(d, "cursor"))
             /\ IsArr(r.a[2]) /\ Len(r.a[2].a) = Len(items.a)
             /\ IsNum(M(d, "count")) /\ M(d, "count").n = ToString(Len(items.a))
             /\ \A e \in 1..Len(items.a) : ItemA(ItemKind(q[1]), r.a[2].a[e], items.a[e], names)

-----------------------------------------------------------------------------
(* HOOKS / CHANS                                                            *)
HookA(r, j, chan) ==
  /\ IsArr(r) /\ Len(r.a) = 5 /\ j.t = "obj"
  /\ j.k = (IF chan THEN <<"name", "key", "ttl", "command", "meta">> ELSE <<"name", "key", "ttl", "endpoints", "command", "meta">>)
  /\ SA(r.a[1], M(j, "name")) /\ SA(r.a[2], M(j, "key"))
  /\ IsNum(M(j, "ttl"))
  /\ (~chan => StrArr(r.a[3], M(j, "endpoints")))
  /\ (chan => IsArr(r.a[3]))
  /\ StrArr(r.a[4], M(j, "command"))
  /\ FlatMap(r.a[5], M(j, "meta"), SA)
HooksA(r, d, member) ==
  LET hs == M(d, member) IN
  /\ hs.t = "arr" /\ IsArr(r) /\ Len(r.a) = Len(hs.a)
  /\ \A e \in 1..Len(hs.a) : HookA(r.a[e], hs.a[e], member = "chans")

-----------------------------------------------------------------------------
(* Scripts: ConvertToRESP versus ConvertToJSON                              *)
\* a table key: a string key is the member name; a key that is not a string shows as an integer (nil for
\* false) in RESP and as its text in JSON
LuaKey(rk, name) == (IsBulk(rk) /\ rk.u = name) \/ IsInt(rk) \/ IsNil(rk)
RECURSIVE LuaA(_, _)
LuaA(r, j) ==
  CASE j.t = "null" -> IsNil(r)
    [] j.t = "bool" -> IF j.s = "true" THEN IsInt(r) /\ r.s = "1" ELSE IsNil(r)
    [] j.t = "num"  -> IsInt(r) /\ (j.i # "" => r.s = j.i)          \* RESP integers are the floor, as in Redis; a number beyond
                                                                   \* 64 bits has no RESP integer: nothing is demanded of it
    [] j.t = "str"  -> IsBulk(r) /\ r.u = j.s
    [] j.t = "arr"  -> IsArr(r) /\ Len(r.a) = Len(j.a) /\ \A e \in 1..Len(j.a) : LuaA(r.a[e], j.a[e])
    [] j.t = "obj"  ->
         \/ j.k = <<"ok">> /\ IsStr(j.a[1]) /\ r.t = "simple" /\ r.u = j.a[1].l         \* status reply
         \/ j.k = <<"err">> /\ IsStr(j.a[1]) /\ r.t = "error" /\ r.u \in {j.a[1].l, "ERR " \o j.a[1].l}
         \/ /\ IsArr(r) /\ Len(r.a) = Len(j.k)                 \* a map: [key, value] pairs, in no particular order
            /\ \A f \in 1..Len(r.a) : IsArr(r.a[f]) /\ Len(r.a[f].a) = 2
            /\ \A e \in 1..Len(j.k) : \E f \in 1..Len(r.a) : /\ LuaKey(r.a[f].a[1], j.k[e])
                                                           /\ LuaA(r.a[f].a[2], j.a[e])
    [] OTHER -> FALSE

-----------------------------------------------------------------------------
(* Statistics                                                               *)
\* values of SERVER that are the same on two servers with the same history (not the size of the log: a
\* rewrite stores the remaining seconds of every deadline as they are at that instant on that server)
StableStat == {"num_collections", "num_hooks", "num_points", "num_objects", "num_strings", "in_memory_size",
               "http_transport", "read_only", "following", "caught_up", "caught_up_once"}
StatMap(r, j) ==
  /\ IsArr(r) /\ j.t = "obj" /\ Len(r.a) = 2 * Len(j.k)
  /\ \A e \in 1..Len(j.k) :
        /\ IsBulk(r.a[2 * e - 1]) /\ r.a[2 * e - 1].u = j.k[e]
        /\ IF j.k[e] \in StableStat THEN SV(r.a[2 * e], j.a[e]) ELSE SVType(r.a[2 * e], j.a[e])
StatsA(r, j) ==       \* STATS key ...: one entry per key, nil / null for a missing key
  /\ IsArr(r) /\ j.t = "arr" /\ Len(r.a) = Len(j.a)
  /\ \A e \in 1..Len(j.a) : IF j.a[e].t = "null" THEN IsNil(r.a[e]) ELSE FlatMap(r.a[e], j.a[e], SV)

RoleA(r, j) ==
  /\ IsArr(r) /\ j.t = "obj" /\ HasM(j, "role") /\ Len(r.a) >= 1 /\ SA(r.a[1], M(j, "role"))
  /\ IF M(j, "role").s = "master"
     THEN /\ j.k = <<"role", "offset", "slaves">> /\ Len(r.a) = 3
          /\ IsInt(r.a[2]) /\ IsNum(M(j, "offset"))              \* the size of the log, see StableStat
          /\ LET sl == M(j, "slaves") IN
             /\ sl.t = "arr" /\ IsArr(r.a[3]) /\ Len(r.a[3].a) = Len(sl.a)
             /\ \A e \in 1..Len(sl.a) : /\ sl.a[e].t = "obj" /\ sl.a[e].k = <<"ip", "port", "offset">>
                                        /\ IsArr(r.a[3].a[e]) /\ Len(r.a[3].a[e].a) = 3
                                        /\ \A f \in 1..2 : SA(r.a[3].a[e].a[f], sl.a[e].a[f])
                                        /\ IsBulk(r.a[3].a[e].a[3]) /\ IsStr(sl.a[e].a[3])
     ELSE /\ j.k = <<"role", "host", "port", "state", "offset">> /\ Len(r.a) = 5
          /\ SA(r.a[2], M(j, "host")) /\ IA(r.a[3], M(j, "port")) /\ SA(r.a[4], M(j, "state")) /\ IsInt(r.a[5]) /\ IsNum(M(j, "offset"))

-----------------------------------------------------------------------------
(* The command a reply belongs to                                           *)
\* TIMEOUT seconds cmd ... answers as cmd; CONFIG x and SCRIPT x are commands of their own
RECURSIVE Eff(_)
Eff(largs) ==
  IF Len(largs) = 0 THEN ""
  ELSE IF largs[1] = "timeout" /\ Len(largs) >= 3 THEN Eff(SubSeq(largs, 3, Len(largs)))
  ELSE IF largs[1] \in {"config", "script"} /\ Len(largs) >= 2 THEN largs[1] \o " " \o largs[2]
  ELSE largs[1]

OkCmds  == {"set", "flushdb", "rename", "jset", "jdel", "readonly", "follow", "slaveof", "replconf", "config set", "config rewrite",
            "client", "gc", "aofshrink", "healthz", "output", "script flush", "auth", "massinsert", "sleep"}
IntCmds == {"del", "pdel", "drop", "renamenx", "fset", "sethook", "setchan", "delhook", "delchan", "pdelhook", "pdelchan",
            "expire", "persist", "jdel"}
SearchCmds == {"scan", "search", "nearby", "within", "intersects"}
EvalCmds == {"eval", "evalro", "evalna", "evalsha", "evalrosha", "evalnasha"}
TtlSlack == 60      \* seconds: two servers are asked at slightly different instants

\* GET, and SET / FSET ... RETURN: one kind member, "fields" when WITHFIELDS finds any
ObjReplyA(r, d) ==
  LET p == Payload(d) IN
  /\ Len(p) \in {1, 2} /\ p[1] \in Kinds /\ (Len(p) = 2 => p[2] = "fields")
  /\ IF Len(p) = 2
     THEN IsArr(r) /\ Len(r.a) = 2 /\ KindA(p[1], r.a[1], M(d, p[1])) /\ FieldsA(r.a[2], M(d, "fields"))
     ELSE \/ KindA(p[1], r, M(d, p[1]))
          \/ IsArr(r) /\ Len(r.a) = 1 /\ KindA(p[1], r.a[1], M(d, p[1]))        \* WITHFIELDS, no fields

\* BOUNDS key: RESP [[minlon, minlat], [maxlon, maxlat]], JSON the rectangle as GeoJSON
RectA(r, g) ==
  /\ IsArr(r) /\ Len(r.a) = 2 /\ \A e \in 1..2 : IsArr(r.a[e]) /\ Len(r.a[e].a) = 2
  /\ g.t = "obj" /\ HasM(g, "type") /\ HasM(g, "coordinates")
  /\ LET c == M(g, "coordinates")
         x1 == r.a[1].a[1]  y1 == r.a[1].a[2]  x2 == r.a[2].a[1]  y2 == r.a[2].a[2] IN
     IF M(g, "type").s = "Point"
     THEN c.t = "arr" /\ Len(c.a) = 2 /\ CA(x1, c.a[1]) /\ CA(y1, c.a[2]) /\ CA(x2, c.a[1]) /\ CA(y2, c.a[2])
     ELSE /\ M(g, "type").s = "Polygon" /\ c.t = "arr" /\ Len(c.a) = 1 /\ c.a[1].t = "arr" /\ Len(c.a[1].a) = 5
          /\ LET ring == c.a[1].a IN
             /\ \A e \in 1..5 : ring[e].t = "arr" /\ Len(ring[e].a) = 2
             /\ CA(x1, ring[1].a[1]) /\ CA(y1, ring[1].a[2])
             /\ CA(x2, ring[3].a[1]) /\ CA(y2, ring[3].a[2])

\* the reply to a command that succeeded in JSON mode (ok = true)
OkAgree(cmd, outer, r, d) ==
  LET p == Payload(d) IN
  CASE cmd \in SearchCmds -> SearchA(r, d)
    [] cmd \in {"get"} -> ObjReplyA(r, d)
    [] cmd \in {"set", "fset"} /\ p # <<>> -> ObjReplyA(r, d)
    [] cmd \in EvalCmds -> /\ p = <<"result">>
                           /\ \/ LuaA(r, M(d, "result"))
                              \* an error object returned by the script is an error reply in RESP mode
                              \/ LET x == M(d, "result") IN x.t = "obj" /\ x.k = <<"err">> /\ ErrAgree(outer, r, x.a[1])
    [] cmd = "script load" -> p = <<"result">> /\ SA(r, M(d, "result"))
    [] cmd = "script exists" -> p = <<"result">> /\ IsArr(r) /\ M(d, "result").t = "arr" /\ Len(r.a) = Len(M(d, "result").a)
                                /\ \A e \in 1..Len(r.a) : IA(r.a[e], M(d, "result").a[e])
    [] cmd = "test" -> /\ Len(p) \in {1, 2} /\ p[1] = "result" /\ (Len(p) = 2 => p[2] = "object")
                       /\ IF Len(p) = 2 THEN IsArr(r) /\ Len(r.a) = 2 /\ BA(r.a[1], M(d, "result")) /\ OA(r.a[2], M(d, "object"))
                          ELSE BA(r, M(d, "result"))
    [] cmd \in {"hooks", "chans"} -> p = <<cmd>> /\ HooksA(r, d, cmd)
    [] cmd = "keys" -> p = <<"keys">> /\ StrArr(r, M(d, "keys"))
    [] cmd = "bounds" -> p = <<"bounds">> /\ RectA(r, M(d, "bounds"))
    [] cmd = "type" -> p = <<"type">> /\ r.t = "simple" /\ SA(r, M(d, "type"))
    [] cmd = "ttl" -> /\ p = <<"ttl">> /\ IsInt(r) /\ IsNum(M(d, "ttl"))
                      /\ \/ r.s = M(d, "ttl").n
                         \/ r.v >= 0 /\ M(d, "ttl").v >= 0 /\ r.v - M(d, "ttl").v \in (0 - TtlSlack)..TtlSlack
    [] cmd \in {"exists", "fexists"} -> p = <<"exists">> /\ BA(r, M(d, "exists"))
    [] cmd = "fget" -> p = <<"value">> /\ FV(r, M(d, "value"))
    [] cmd = "jget" -> \/ p = <<"value">> /\ SA(r, M(d, "value")) /\ IsBulk(r)
                       \/ p = <<>> /\ IsNil(r)                                     \* no such path
    [] cmd = "stats" -> p = <<"stats">> /\ StatsA(r, M(d, "stats"))
    [] cmd = "server" -> p = <<"stats">> /\ StatMap(r, M(d, "stats"))
    [] cmd = "info" -> p = <<"info">> /\ IsBulk(r) /\ M(d, "info").t = "obj"
    [] cmd = "role" -> p = <<"role">> /\ RoleA(r, M(d, "role"))
    [] cmd = "config get" -> p = <<"properties">> /\ FlatMap(r, M(d, "properties"), SA)
    [] cmd = "client" /\ p # <<>> ->
         \/ p = <<"list">> /\ IsBulk(r) /\ M(d, "list").t = "arr" /\ \A e \in 1..Len(M(d, "list").a) : M(d, "list").a[e].t = "obj"
         \/ p = <<"name">> /\ IsBulk(r) /\ SA(r, M(d, "name"))
    [] cmd = "output" /\ p # <<>> -> p = <<"output">> /\ IsBulk(r) /\ r.s = "resp" /\ IsStr(M(d, "output")) /\ M(d, "output").s = "json"
    [] cmd \in {"ping", "echo"} -> /\ p = <<cmd>> /\ IsStr(M(d, cmd))
                                  /\ \/ r.t = "simple" /\ r.s = "PONG" /\ M(d, cmd).s = "pong"
                                     \/ IsBulk(r) /\ SA(r, M(d, cmd))
    [] cmd = "publish" -> p = <<"published">> /\ IA(r, M(d, "published"))
    [] cmd = "aofmd5" -> p = <<"md5">> /\ r.t = "simple" /\ SA(r, M(d, "md5"))
    [] cmd \in IntCmds /\ cmd \in OkCmds -> p = <<>> /\ (IsInt(r) \/ OkLike(r))      \* JDEL of a geometry member answers as SET
    [] cmd \in IntCmds -> p = <<>> /\ IsInt(r)
    [] cmd \in OkCmds -> p = <<>> /\ OkLike(r)
    [] OTHER -> FALSE

\* commands whose RESP reply to a missing key / id is a value, not an error
SoftMissing(cmd, r) ==
  CASE cmd \in {"get", "jget", "bounds"} -> IsNil(r)
    [] cmd = "ttl" -> IsInt(r) /\ r.s = "-2"
    [] cmd \in {"expire", "persist", "jdel"} -> IsInt(r) /\ r.s = "0"
    [] cmd = "type" -> r.t = "simple" /\ r.s = "none"
    [] OTHER -> FALSE

\* the reply to a command that failed in JSON mode (ok = false)
ErrSideAgree(cmd, outer, r, d) ==
  LET e == Err(d) IN
  \/ ErrAgree(outer, r, e)
  \/ cmd \in {"follow", "slaveof"} /\ r.t = "error"      \* the text quotes what the operating system said at that instant
  \/ NotFoundErr(e) /\ SoftMissing(cmd, r)
  \/ cmd = "jdel" /\ e.s = "path not found" /\ IsInt(r) /\ r.s = "0"
  \/ cmd = "set" /\ IsNil(r) /\ e.s \in {"id not found", "id already exists"}           \* XX / NX not satisfied

Agree(largs, r, d) ==
  LET cmd == Eff(largs)
      outer == largs[1] IN
  IF Ok(d) THEN OkAgree(cmd, outer, r, d) ELSE ErrSideAgree(cmd, outer, r, d)

-----------------------------------------------------------------------------
(* Live connections                                                         *)
\* the first reply of SUBSCRIBE / PSUBSCRIBE per channel, of a FENCE search, of MONITOR and AOF
AckAgree(largs, r, d) ==
  LET cmd == largs[1]
      p == Payload(d) IN
  IF ~Ok(d) THEN ErrAgree(cmd, r, Err(d))
  ELSE CASE cmd \in {"subscribe", "psubscribe"} ->
              /\ p = <<"command", "channel", "num">>
              /\ IsArr(r) /\ Len(r.a) = 3
              /\ SA(r.a[1], M(d, "command")) /\ SA(r.a[2], M(d, "channel")) /\ IA(r.a[3], M(d, "num"))
         [] cmd \in SearchCmds -> p = <<"live">> /\ JTrue(M(d, "live")) /\ OkLike(r)
         [] OTHER -> p = <<>> /\ OkLike(r)

\* A pushed message.  A geofence notification is one JSON document in both modes (a bulk string on a RESP
\* or telnet connection, the payload of a native frame).  A published message arrives in RESP mode as
\* ["message", channel, text] / ["pmessage", pattern, channel, text] and in JSON mode as the text itself when
\* it is JSON, else as a JSON string.  "time" and "group" differ between two servers.
Volatile == {"time", "group"}
RECURSIVE PushEq(_, _)
PushEq(x, y) ==
  IF x.t = "obj" /\ y.t = "obj"
  THEN x.k = y.k /\ \A e \in 1..Len(x.k) : IF x.k[e] \in Volatile THEN x.a[e].t = y.a[e].t ELSE PushEq(x.a[e], y.a[e])
  ELSE IF x.t = "arr" /\ y.t = "arr" THEN Len(x.a) = Len(y.a) /\ \A e \in 1..Len(x.a) : PushEq(x.a[e], y.a[e])
  ELSE JEq(x, y)
IsMessage(r) == IsArr(r) /\ Len(r.a) \in {3, 4} /\ r.a[1].s = (IF Len(r.a) = 3 THEN "message" ELSE "pmessage")
\* x: reading on a connection in RESP mode, y: reading on a connection in JSON mode
WfPush(x, jsonmode) == x.fwf /\ (x.jerr = "" \/ (~jsonmode /\ x.rv.t # "none"))
PushAgree(x, y) ==
  IF x.jerr = "" THEN PushEq(x.jv, y.jv)
  ELSE IF IsMessage(x.rv)
  THEN LET m == x.rv.a[Len(x.rv.a)] IN
       IF m.j.t # "none" THEN PushEq(m.j, y.jv) ELSE IsStr(y.jv) /\ m.u = y.jv.s
  ELSE FALSE          \* some other RESP value cannot say what a JSON document says
=============================================================================
