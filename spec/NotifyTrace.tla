---------------------------- MODULE NotifyTrace ----------------------------
(***************************************************************************)
(* Validation of notification streams recorded from the real server         *)
(* (code -> model).  trace.ndjson holds one line per concurrent run:        *)
(*                                                                          *)
(*  id                                                                      *)
(*  patmatch : patmatch[p] = the channels pattern p matches (by the         *)
(*             construction of the names)                                   *)
(*  chans    : chans[f] = [k, kinds]: channel f carries the events of a     *)
(*             fence on key k that reports these detect codes (ascending)   *)
(*  pubs     : every client PUBLISH [c, i, ch, st, rt]; st / rt are tickets *)
(*             drawn from one atomic counter just before the command was    *)
(*             written to the socket / just after its reply was read        *)
(*  writes   : every SET of the run [c, i, w, k, st, rt]; w is its position *)
(*             among the SETs of appendonly.aof.  Every SET puts a fresh    *)
(*             object inside every fence of its key, so that it generates   *)
(*             for channel f exactly chans[f].kinds (the token semantics of *)
(*             Notify)                                                      *)
(*  insts    : subscription instances [s, j, kind, n, st, at, ust, uat]:    *)
(*             tickets of SUBSCRIBE sent / acknowledgement read /           *)
(*             UNSUBSCRIBE sent / its acknowledgement read (0 = never)      *)
(*  subs     : per subscriber connection [s, items]: the messages read from *)
(*             its socket, in order: [c, i, ch, d, w, st, rt, kind, n]      *)
(*  hooks    : per webhook [h, k, kinds, items, attempts]: what its         *)
(*             endpoint accepted, and every request it saw [.., ok]         *)
(*  lives    : per live fence connection [l, k, kinds, st, at, items]       *)
(*                                                                          *)
(* The judgement is NotifyJudge's (the operators Notify proves for the      *)
(* design), with the precedence relations computed from the tickets:        *)
(* a was completed before b was sent  <=>  a.rt < b.st.  A rejected stream  *)
(* is printed as <<"REJ", json>> with the reasons; every stream gets its    *)
(* own verdict, nothing blocks.                                             *)
(***************************************************************************)
EXTENDS NotifyJudge, Json, TLC

Trace == ndJsonDeserialize("trace.ndjson")

VARIABLES l, nstreams, nrej, nitems
vars == <<l, nstreams, nrej, nitems>>

Covers(pm, kind, n, ch) == IF kind = "ch" THEN n = ch ELSE ch \in SeqRange(pm[n])

\* same connection: program order; otherwise: completed before the other was sent; writes: log order
Before(a, b) == GeoBefore(a, b) \/ (a.c = b.c /\ a.i < b.i) \/ (a.rt # 0 /\ a.rt < b.st)

\* ---- subscribers
Tag(m, x) == [c |-> m.c, i |-> m.i, ch |-> m.ch, d |-> m.d, w |-> m.w, st |-> m.st, rt |-> m.rt, kind |-> x.kind, n |-> x.n]
\* may instance x receive message m at all: not if m was completed before the SUBSCRIBE was sent,
\* not if m was sent after the UNSUBSCRIBE was acknowledged
SubElig(r, x, m) == /\ Covers(r.patmatch, x.kind, x.n, m.ch)
                    /\ ~(m.rt # 0 /\ m.rt < x.st)
                    /\ ~(x.uat # 0 /\ x.uat < m.st)
\* does it have to: m was sent after the acknowledgement was read and completed before an UNSUBSCRIBE was sent
SubMust(r, x, m) == /\ Covers(r.patmatch, x.kind, x.n, m.ch)
                    /\ x.at # 0 /\ x.at < m.st
                    /\ m.rt # 0
                    /\ (x.ust = 0 \/ m.rt < x.ust)
InstOf(r, s) == {x \in SeqRange(r.insts) : x.s = s}
\* every message handed to Server.Publish: the client PUBLISHes and the channel messages of the writes
Msgs(r) == {[c |-> p.c, i |-> p.i, ch |-> p.ch, d |-> 0, w |-> 0, st |-> p.st, rt |-> p.rt] : p \in SeqRange(r.pubs)}
           \cup {[c |-> t[1].c, i |-> t[1].i, ch |-> t[2], d |-> t[3], w |-> t[1].w, st |-> t[1].st, rt |-> t[1].rt] :
                   t \in {tt \in SeqRange(r.writes) \X (1..Len(r.chans)) \X (3..4) :
                            r.chans[tt[2]].k = tt[1].k /\ tt[3] \in SeqRange(r.chans[tt[2]].kinds)}}
SubEligItems(r, s, M) == {Tag(p[1], p[2]) : p \in {pp \in M \X InstOf(r, s) : SubElig(r, pp[2], pp[1])}}
SubMustItems(r, s, M) == {Tag(p[1], p[2]) : p \in {pp \in M \X InstOf(r, s) : SubMust(r, pp[2], pp[1])}}

\* ---- webhooks and live fences: the messages of the writes into the fence's key
GeoItems(W, k, kinds) == {[c |-> p[1].c, i |-> p[1].i, ch |-> 0, d |-> p[2], w |-> p[1].w, st |-> p[1].st, rt |-> p[1].rt] :
                            p \in {pp \in W \X SeqRange(kinds) : pp[1].k = k}}
RECURSIVE SortGeo(_)
SortGeo(S) == IF S = {} THEN <<>>
              ELSE LET m == CHOOSE x \in S : \A y \in S : x = y \/ GeoBefore(x, y) IN <<m>> \o SortGeo(S \ {m})
\* every request a webhook endpoint saw carried the first message it had not yet accepted (hooks.go proc sends
\* in index order and re-inserts the unsent tail): attempts[n] = gen[1 + number of accepted ones before n]
AttemptsOK(att, gen) ==
  \A n \in 1..Len(att) :
     LET k == Cardinality({m \in 1..(n - 1) : att[m].ok}) + 1
     IN k <= Len(gen) /\ [c |-> att[n].c, i |-> att[n].i, d |-> att[n].d] = [c |-> gen[k].c, i |-> gen[k].i, d |-> gen[k].d]

\* ---- one line
Verdicts(r) ==
  LET W  == SeqRange(r.writes)
      MS == Msgs(r) IN
     {[kind |-> "sub", r |-> x.s, n |-> Len(x.items),
       why |-> LET E == SubEligItems(r, x.s, MS)  M == SubMustItems(r, x.s, MS)
               IN IF StreamSafe(x.items, E, Before) /\ StreamComplete(x.items, M) THEN {}
                  ELSE {d.why : d \in Defects(x.items, E, M, Before)}] : x \in SeqRange(r.subs)}
  \cup
     {[kind |-> "hook", r |-> x.h, n |-> Len(x.items),
       why |-> LET E == GeoItems(W, x.k, x.kinds)
               IN (IF StreamSafe(x.items, E, Before) /\ StreamComplete(x.items, E) THEN {}
                   ELSE {d.why : d \in Defects(x.items, E, E, Before)})
                  \cup (IF AttemptsOK(x.attempts, SortGeo(E)) THEN {} ELSE {"request-not-for-the-oldest-undelivered-message"})] :
      x \in SeqRange(r.hooks)}
  \cup
     {[kind |-> "live", r |-> x.l, n |-> Len(x.items),
       why |-> LET E == GeoItems(W, x.k, x.kinds)
                   M == GeoItems({y \in W : x.at # 0 /\ x.at < y.st}, x.k, x.kinds)
               IN IF StreamSafe(x.items, E, Before) /\ StreamComplete(x.items, M) THEN {}
                  ELSE {d.why : d \in Defects(x.items, E, M, Before)}] : x \in SeqRange(r.lives)}

Init == l = 1 /\ nstreams = 0 /\ nrej = 0 /\ nitems = 0 /\ TLCSet(1, 1) /\ TLCSet(2, 0) /\ TLCSet(3, 0) /\ TLCSet(4, 0)

RECURSIVE SumN(_)
SumN(S) == IF S = {} THEN 0 ELSE LET x == CHOOSE y \in S : TRUE IN x.n + SumN(S \ {x})

Consume ==
  /\ l <= Len(Trace)
  /\ LET r   == Trace[l]
         vs  == Verdicts(r)
         bad == {v \in vs : v.why # {}}
     IN /\ \A v \in bad : PrintT(<<"REJ", ToJson([line |-> l, id |-> r.id, kind |-> v.kind, r |-> v.r, why |-> v.why])>>)
        /\ nstreams' = nstreams + Cardinality(vs)
        /\ nrej' = nrej + Cardinality(bad)
        /\ nitems' = nitems + SumN(vs)
  /\ l' = l + 1
  /\ TLCSet(1, l') /\ TLCSet(2, nstreams') /\ TLCSet(3, nrej') /\ TLCSet(4, nitems')

Spec == Init /\ [][Consume]_vars

\* the whole file was judged (POSTCONDITION, -workers 1); the counts are printed for the check
Consumed == /\ TLCGet(1) = Len(Trace) + 1
            /\ PrintT(<<"SUM", ToJson([lines |-> Len(Trace), streams |-> TLCGet(2), rejected |-> TLCGet(3), items |-> TLCGet(4)])>>)
=============================================================================
