----------------------------- MODULE ReplyGen -----------------------------
(***************************************************************************)
(* Behaviour generator for property C17 (model -> code).                   *)
(*                                                                         *)
(* The command table is a CONSTANT: the harness extracts every command     *)
(* name from the current source tree and pairs it with argument templates; *)
(* InstSeq lists the instances with their number of arguments.  TLC        *)
(* enumerates, as initial states, every cell of                            *)
(*     instance x argument shape x naming of the fixture                   *)
(* (a naming = the concrete keys, ids, field names and values, hook names, *)
(* ... the state is built from: plain ones and ones that need JSON         *)
(* escaping) and prints one behaviour per cell.  Argument shapes are       *)
(* syntactic: the template as it is (valid), its first k arguments (drop:  *)
(* wrong arity, missing key / id), one more argument (extra), one argument *)
(* replaced by a meaningless word (garble: wrong types, unknown options,   *)
(* missing keys and ids).  Live commands (SUBSCRIBE, FENCE searches, ...)  *)
(* are emitted as live behaviours: their first replies and the messages    *)
(* pushed afterwards are recorded.                                         *)
(* The connection-mode machine of Reply (OUTPUT switches the mode, the     *)
(* reply to OUTPUT is rendered in the new mode, an HTTP connection serves  *)
(* one request) is explored over all command sequences of length           *)
(* <= ModeDepth as a second part of the state graph, with its invariants.  *)
(***************************************************************************)
EXTENDS Reply, Json

CONSTANTS InstSeq,        \* << [id |-> "get~2", n |-> 4, live |-> FALSE, named |-> TRUE], ... >>
          RowSeq,         \* namings; RowSeq[1] is the plain one
          ShapeRows,      \* the first ShapeRows namings are combined with every argument shape, the others with "valid"
          ModeDepth       \* length of the OUTPUT sequences explored on the mode machine

Shapes(n) == {<<"valid", 0>>, <<"extra", 0>>}
             \cup {<<"drop", k>> : k \in 1..(n - 1)}
             \cup {<<"garble", k>> : k \in 2..n}

VARIABLES kind,    \* "cell" | "mode"
          cell,    \* <<instance index, naming index, shape>>
          done,
          tr, m, hist   \* mode machine: transport, current mode, commands sent so far
vars == <<kind, cell, done, tr, m, hist>>

Legal(i, r, sh) ==
  /\ sh \in Shapes(InstSeq[i].n)
  /\ (r > ShapeRows => sh[1] = "valid")
  /\ (r > 1 => InstSeq[i].named)        \* a command that does not touch the naming behaves the same under every naming
  /\ (InstSeq[i].live => sh[1] = "valid")

Behaviour(c) ==
  [kind |-> IF InstSeq[c[1]].live THEN "live" ELSE "table",
   inst |-> InstSeq[c[1]].id, row |-> RowSeq[c[2]], shape |-> c[3][1], p |-> c[3][2]]

ModeCmds == {<<"output", "json">>, <<"output", "resp">>, <<"output">>, <<"output", "xml">>, <<"get", "k", "i">>}
Transports == {"resp", "telnet", "native", "http"}

Init ==
  \/ /\ kind = "cell" /\ done = FALSE /\ tr = "-" /\ m = "-" /\ hist = <<>>
     /\ \E i \in 1..Len(InstSeq), r \in 1..Len(RowSeq) : \E sh \in Shapes(InstSeq[i].n) :
           Legal(i, r, sh) /\ cell = <<i, r, sh>>
  \/ /\ kind = "mode" /\ done = FALSE /\ cell = <<0, 0, <<"-", 0>>>> /\ hist = <<>>
     /\ tr \in Transports /\ m = DefaultMode(tr)

Emit ==
  /\ kind = "cell" /\ ~done /\ done' = TRUE
  /\ PrintT(<<"TR", ToJson(Behaviour(cell))>>)
  /\ UNCHANGED <<kind, cell, tr, m, hist>>

\* one command on a connection: the reply is rendered in ReplyMode, which is also the mode afterwards on a
\* stream connection; an HTTP connection is gone after one request
Send(c) ==
  /\ kind = "mode" /\ Len(hist) < ModeDepth
  /\ LET rm == ReplyMode(m, c) IN
     /\ hist' = Append(hist, [c |-> c, rendered |-> rm])
     /\ m' = IF Stream(tr) THEN rm ELSE DefaultMode(tr)
  /\ UNCHANGED <<kind, cell, done, tr>>

Next == Emit \/ \E c \in ModeCmds : Send(c)
Spec == Init /\ [][Next]_vars

-----------------------------------------------------------------------------
(* Invariants of the generator and of the mode machine.                     *)
\* every instance is generated in its valid shape with every naming
AllCovered == \A i \in 1..Len(InstSeq), r \in 1..Len(RowSeq) : (r = 1 \/ InstSeq[i].named) => Legal(i, r, <<"valid", 0>>)
ASSUME AllCovered
ASSUME RowSeq[1] = "plain" /\ ShapeRows >= 1

ModeTyped == kind = "mode" => m \in {"resp", "json"}
\* the mode of a connection is the argument of the last OUTPUT json|resp sent on it, else the transport's default;
\* an HTTP connection is always in its default mode before a request
LastSwitch(h) == LET sw == {x \in 1..Len(h) : Len(h[x].c) = 2 /\ h[x].c[1] = "output" /\ h[x].c[2] \in {"json", "resp"}}
                 IN IF sw = {} THEN 0 ELSE CHOOSE x \in sw : \A y \in sw : y <= x
ModeIsLastSwitch ==
  kind = "mode" => IF ~Stream(tr) \/ LastSwitch(hist) = 0 THEN m = DefaultMode(tr) ELSE m = hist[LastSwitch(hist)].c[2]
\* the reply to OUTPUT json|resp is rendered in the mode it asks for; any other reply in the mode before it
RenderedRight ==
  kind = "mode" => \A x \in 1..Len(hist) :
     LET c == hist[x].c
         before == IF ~Stream(tr) \/ LastSwitch(SubSeq(hist, 1, x - 1)) = 0 THEN DefaultMode(tr)
                   ELSE hist[LastSwitch(SubSeq(hist, 1, x - 1))].c[2]
     IN hist[x].rendered = (IF Len(c) = 2 /\ c[1] = "output" /\ c[2] \in {"json", "resp"} THEN c[2] ELSE before)
=============================================================================
