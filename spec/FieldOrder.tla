----------------------------- MODULE FieldOrder -----------------------------
(***************************************************************************)
(* The documented order of field values and the meaning of the field       *)
(* filters WHERE / WHEREIN (internal/field/field.go ValueOf, LessCase;     *)
(* internal/server/token.go whereT.matchField, whereinT.match).            *)
(*                                                                         *)
(*   Null < False < Number < String < True < JSON                          *)
(*   numbers in numeric order, strings case-insensitively,                 *)
(*   a field that is missing (or was written as 0) reads as the number 0.  *)
(*                                                                         *)
(* An operator module: values are tokens of a table that carries, for each *)
(* token, the concrete text the harness writes (txt) and its abstract      *)
(* class (rank, ord).  TLC cannot order strings, so order = (rank, ord).   *)
(* NaN is a Number that is neither less nor greater than any other number  *)
(* (Go float comparison); the statement is silent about it and it is taken *)
(* as coded.                                                               *)
(***************************************************************************)
EXTENDS Integers, Sequences, FiniteSets

FV(tok, txt, rank, ord, nan, alpha) ==
  [tok |-> tok, txt |-> txt, rank |-> rank, ord |-> ord, nan |-> nan, alpha |-> alpha]

\* alpha: the text starts with a letter, so it cannot be written as an INCLUSIVE lower bound
\* of "WHERE name min max" (token.go detectExprToken takes it for an expression); it can be
\* written as "(text" (exclusive), as an upper bound, after an operator and in WHEREIN.
ValueTable == <<
  FV("null",   "null",           0, 0,      FALSE, TRUE),
  FV("false",  "false",          1, 0,      FALSE, TRUE),
  FV("-inf",   "-inf",           2, -99999, FALSE, FALSE),
  FV("-3",     "-3",             2, -300,   FALSE, FALSE),
  FV("-0.5",   "-0.5",           2, -50,    FALSE, FALSE),
  FV("0",      "0",              2, 0,      FALSE, FALSE),     \* THE zero: never stored
  FV("0.0",    "0.0",            2, 0,      FALSE, FALSE),     \* stored, numerically zero
  FV("1",      "1",              2, 100,    FALSE, FALSE),
  FV("1.0",    "1.0",            2, 100,    FALSE, FALSE),
  FV("1.5",    "1.5",            2, 150,    FALSE, FALSE),
  FV("2",      "2",              2, 200,    FALSE, FALSE),
  FV("5sp",    " 5 ",            2, 500,    FALSE, FALSE),     \* trimmed
  FV("1e2",    "1e2",            2, 10000,  FALSE, FALSE),
  FV("+inf",   "+inf",           2, 99999,  FALSE, FALSE),
  FV("nan",    "NaN",            2, 0,      TRUE,  TRUE),
  FV("007",    "007",            3, 0,      FALSE, FALSE),     \* not a JSON number: a string
  FV("abc",    "abc",            3, 1,      FALSE, TRUE),
  FV("ABC",    "ABC",            3, 1,      FALSE, TRUE),      \* equal to abc
  FV("abd",    "abd",            3, 2,      FALSE, TRUE),
  FV("b",      "b",              3, 3,      FALSE, TRUE),
  FV("true",   "true",           4, 0,      FALSE, TRUE),
  FV("json",   "{\"a\":[1,2]}",  5, 0,      FALSE, FALSE) >>

TokSet == {ValueTable[i].tok : i \in 1..Len(ValueTable)}
Val(tok) == ValueTable[CHOOSE i \in 1..Len(ValueTable) : ValueTable[i].tok = tok]
Missing == "0"             \* a missing field reads as the number 0

Less(a, b) == LET x == Val(a)  y == Val(b) IN
  \/ x.rank < y.rank
  \/ x.rank = y.rank /\ ~x.nan /\ ~y.nan /\ x.ord < y.ord
Eq(a, b)  == ~Less(a, b) /\ ~Less(b, a)
Leq(a, b) == ~Less(b, a)
IsZero(a) == a = "0"

(* WHERE name min max, each bound inclusive or exclusive "("                *)
Where(v, min, minx, max, maxx) ==
  /\ IF minx THEN Less(min, v) ELSE Leq(min, v)
  /\ IF maxx THEN Less(v, max) ELSE Leq(v, max)

(* WHERE name op value                                                      *)
Ops == {"<", "<=", ">", ">=", "==", "!="}
WhereOp(v, op, x) ==
  CASE op = "<"  -> Less(v, x)
    [] op = "<=" -> Leq(v, x)
    [] op = ">"  -> Less(x, v)
    [] op = ">=" -> Leq(x, v)
    [] op = "==" -> Eq(v, x)
    [] op = "!=" -> ~Eq(v, x)

(* WHEREIN name n v1 .. vn                                                  *)
WhereIn(v, vs) == \E i \in 1..Len(vs) : Eq(vs[i], v)

-----------------------------------------------------------------------------
(* Theorems about the order (checked by TLC as ASSUMEs of the generator).   *)
Plain == {t \in TokSet : ~Val(t).nan}
OrderIsStrictWeak ==
  /\ \A a \in TokSet : ~Less(a, a)
  /\ \A a, b \in TokSet : ~(Less(a, b) /\ Less(b, a))
  /\ \A a, b, c \in Plain : Less(a, b) /\ Less(b, c) => Less(a, c)
  /\ \A a, b, c \in Plain : Eq(a, b) /\ Eq(b, c) => Eq(a, c)
KindOrder ==      \* Null < False < Number < String < True < JSON
  \A a, b \in TokSet : Val(a).rank < Val(b).rank => Less(a, b)
OpsAreBounds ==   \* the operator form is the min/max form with one open side
  \A v, x \in Plain :
     /\ WhereOp(v, "==", x) <=> Where(v, x, FALSE, x, FALSE)
     /\ WhereOp(v, "<=", x) <=> Where(v, "null", FALSE, x, FALSE)
     /\ WhereOp(v, "<", x)  <=> Where(v, "null", FALSE, x, TRUE)
     /\ WhereOp(v, ">=", x) <=> Where(v, x, FALSE, "json", FALSE)
     /\ WhereOp(v, ">", x)  <=> Where(v, x, TRUE, "json", FALSE)
     /\ WhereOp(v, "!=", x) <=> ~WhereOp(v, "==", x)
MissingIsZero == \A v \in TokSet : Eq(v, Missing) <=> (Val(v).rank = 2 /\ (Val(v).nan \/ Val(v).ord = 0))
=============================================================================
