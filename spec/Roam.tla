-------------------------------- MODULE Roam --------------------------------
(***************************************************************************)
(* C20  Roaming geofences: NEARBY key FENCE [NODWELL] ROAM key pattern m.  *)
(*                                                                         *)
(* Objects of one collection sit on the cells of a small grid (or are      *)
(* absent).  Every SET of an object yields the `nearby' and `faraway'      *)
(* entries a roaming fence must report for it.  Distances are NOT computed *)
(* here: Dist is an integer table (millimetres) produced by an independent *)
(* haversine implementation in the harness for the concrete coordinates of *)
(* the cells, Rect tells whether a cell lies in the latitude/longitude     *)
(* bounding rectangle of the radius circle around another cell (the area   *)
(* the implementation searches before it filters by radius).               *)
(*                                                                         *)
(* Code anchors (internal/server/fence.go):                                *)
(*   Near       ~ fenceMatchNearbys  (rectangle search, radius filter,     *)
(*                                    id-pattern filter, skip self)        *)
(*   Outcome    ~ fenceMatchRoam     (old-vs-new neighbour sets, NODWELL,  *)
(*                                    metres to the NEW position, sorted)  *)
(*   one message per entry          ~ fenceMatch "roam" / extendRoamMessage*)
(*                                                                         *)
(* Named deviation (DESIGN.md section 5, D8): the radius filter of the     *)
(* code measures the distance of the candidate to itself, so the neighbour *)
(* set is the whole search rectangle.  Every step records the intended     *)
(* outcome (exp) and the outcome of that as-coded design (dev); AsCoded    *)
(* selects which of the two the observer and the properties look at, so    *)
(* TLC shows that the intended design satisfies C20 and the as-coded one   *)
(* does not.  The conformance check always compares the real code with     *)
(* exp; dev is only used to recognise the recorded defect exactly.         *)
(***************************************************************************)
EXTENDS Integers, Sequences, FiniteSets, TLC

CONSTANTS
  IdSeq,     \* object ids in ascending byte order; an id is a sequence of 1-character strings
  NCells,    \* positions are the cells 1..NCells (0 = the object does not exist)
  Dist,      \* Dist[c1][c2] : distance in millimetres between the cells (independent haversine)
  Rect,      \* Rect[c1][c2] : c2 lies in the lat/lon bounding rectangle of the circle around c1
  Radius,    \* fence radius in millimetres
  Patterns,  \* id patterns to explore: sequences of characters, "*" and "?" are wildcards
  NoDwells,  \* subset of BOOLEAN: the NODWELL settings to explore
  WithDel,   \* also generate DEL of an object
  AsCoded,   \* FALSE: the intended design;  TRUE: deviation D8 (neighbour set = search rectangle)
  MaxHist    \* length bound of generated behaviours

Objs  == 1..Len(IdSeq)
Cells == 1..NCells

ASSUME TablesSane ==
  /\ \A a \in Cells : Dist[a][a] = 0 /\ Rect[a][a]
  /\ \A a, b \in Cells : Dist[a][b] = Dist[b][a] /\ Dist[a][b] >= 0
  /\ \A a, b \in Cells : Dist[a][b] <= Radius => Rect[a][b]     \* the circle lies inside its rectangle
\* no distance is within 1 % of the radius: the 0.5 % tolerance on metres can never decide membership
ASSUME RadiusMargin ==
  \A a, b \in Cells : (Dist[a][b] - Radius) * 100 > Radius \/ (Radius - Dist[a][b]) * 100 > Radius
\* the quantifier of C20: the grid has cells inside the rectangle but outside the circle, and cells inside
ASSUME GridHasCorners ==
  /\ \E a, b \in Cells : a # b /\ Rect[a][b] /\ Dist[a][b] > Radius
  /\ \E a, b \in Cells : a # b /\ Dist[a][b] <= Radius
  /\ \E a, b \in Cells : ~Rect[a][b]

-----------------------------------------------------------------------------
(* Glob matching on character sequences (internal/glob Match restricted to  *)
(* literals, "*" and "?"; a pattern without wildcard is literal equality -  *)
(* the code's `fence.roam.id == o.ID()' branch).                            *)
RECURSIVE GlobMatch(_, _)
GlobMatch(p, s) ==
  IF p = <<>> THEN s = <<>>
  ELSE IF Head(p) = "*" THEN GlobMatch(Tail(p), s) \/ (s # <<>> /\ GlobMatch(p, Tail(s)))
  ELSE s # <<>> /\ (Head(p) = "?" \/ Head(p) = Head(s)) /\ GlobMatch(Tail(p), Tail(s))

Matches(pat, o) == GlobMatch(pat, IdSeq[o])
MatchAll(pat)   == \A o \in Objs : Matches(pat, o)

-----------------------------------------------------------------------------
(* Neighbour sets.                                                          *)
InCircle == [a \in Cells |-> [b \in Cells |-> Dist[a][b] <= Radius]]   \* intended radius test
InRect   == [a \in Cells |-> [b \in Cells |-> Rect[a][b]]]             \* as coded (D8)

\* the other existing pattern-matching objects `within' reach of object o placed at cell c
Near(within, pos, pat, o, c) ==
  IF c = 0 THEN {}
  ELSE {p \in Objs \ {o} : pos[p] # 0 /\ Matches(pat, p) /\ within[c][pos[p]]}

Entry(pos, new, p) == [o |-> p, mm |-> Dist[new][pos[p]]]     \* metres are measured to the NEW position
Less(e, f) == e.mm < f.mm \/ (e.mm = f.mm /\ e.o < f.o)
RECURSIVE SortEntries(_)
SortEntries(S) == IF S = {} THEN <<>>
                  ELSE LET m == CHOOSE e \in S : \A f \in S : e = f \/ Less(e, f)
                       IN <<m>> \o SortEntries(S \ {m})
Range(s) == {s[i] : i \in 1..Len(s)}

\* what a SET of o to cell `new' reports, for a given radius test
Outcome(within, pos, cfg, o, new) ==
  LET nOld == Near(within, pos, cfg.pat, o, pos[o])
      nNew == Near(within, pos, cfg.pat, o, new)
      nb   == IF cfg.nodwell THEN nNew \ nOld ELSE nNew
      fa   == nOld \ nNew
  IN [nearby  |-> SortEntries({Entry(pos, new, p) : p \in nb}),
      faraway |-> SortEntries({Entry(pos, new, p) : p \in fa})]

NoOutcome == [nearby |-> <<>>, faraway |-> <<>>]

\* neighbours in a corner: inside the search rectangle of the old or new position, outside the circle
Corners(pos, pat, o, new) ==
  {p \in Objs \ {o} : /\ pos[p] # 0 /\ Matches(pat, p)
                      /\ \/ Rect[new][pos[p]] /\ Dist[new][pos[p]] > Radius
                         \/ pos[o] # 0 /\ Rect[pos[o]][pos[p]] /\ Dist[pos[o]][pos[p]] > Radius}

-----------------------------------------------------------------------------
(* State.  cfg is chosen initially and never changes.  `close' is an        *)
(* observer: a client that maintains the set of pairs of objects currently  *)
(* within the radius of each other purely from the reported entries (it is  *)
(* maintained only for patterns that match every id; otherwise it stays {}).*)
VARIABLES pos, cfg, close, hist
vars == <<pos, cfg, close, hist>>

Init == /\ pos = [o \in Objs |-> 0]
        /\ cfg \in [pat : Patterns, nodwell : NoDwells]
        /\ close = {}
        /\ hist = <<>>

Obs(h) == IF AsCoded THEN h.dev ELSE h.exp

Set(o, new) ==
  LET h == [op |-> "set", o |-> o, c |-> new, old |-> pos[o],
            exp |-> Outcome(InCircle, pos, cfg, o, new),
            dev |-> Outcome(InRect, pos, cfg, o, new),
            corners |-> Cardinality(Corners(pos, cfg.pat, o, new))]
      out == Obs(h)
  IN /\ pos' = [pos EXCEPT ![o] = new]
     /\ hist' = Append(hist, h)
     /\ close' = IF MatchAll(cfg.pat)
                 THEN (close \ {{o, e.o} : e \in Range(out.faraway)}) \cup {{o, e.o} : e \in Range(out.nearby)}
                 ELSE close
     /\ UNCHANGED cfg

Del(o) ==
  /\ WithDel /\ pos[o] # 0
  /\ pos' = [pos EXCEPT ![o] = 0]
  /\ hist' = Append(hist, [op |-> "del", o |-> o, c |-> 0, old |-> pos[o],
                           exp |-> NoOutcome, dev |-> NoOutcome, corners |-> 0])
  /\ close' = {pr \in close : o \notin pr}       \* the fence reports {"command":"del","id":o}
  /\ UNCHANGED cfg

Next == /\ Len(hist) < MaxHist
        /\ \/ \E o \in Objs, c \in Cells : Set(o, c)
           \/ \E o \in Objs : Del(o)

Spec == Init /\ [][Next]_vars
View == <<pos, cfg, close>>

-----------------------------------------------------------------------------
(* The property, stated directly on distances (not through Near/Outcome).   *)
TypeOK == /\ pos \in [Objs -> 0..NCells]
          /\ cfg \in [pat : Patterns, nodwell : NoDwells]
          /\ close \subseteq SUBSET Objs

Ids(s) == {e.o : e \in Range(s)}

\* C20 for one step: pos is the configuration before the SET of o to cell new, out what is reported
Statement(p0, c, o, new, out) ==
  LET others     == {p \in Objs \ {o} : p0[p] # 0 /\ Matches(c.pat, p)}
      isNear(p)  == Dist[new][p0[p]] <= Radius
      wasNear(p) == p0[o] # 0 /\ Dist[p0[o]][p0[p]] <= Radius
  IN /\ Ids(out.nearby)  = {p \in others : isNear(p) /\ ~(c.nodwell /\ wasNear(p))}
     /\ Ids(out.faraway) = {p \in others : wasNear(p) /\ ~isNear(p)}
     /\ Len(out.nearby) = Cardinality(Ids(out.nearby))          \* one entry per neighbour
     /\ Len(out.faraway) = Cardinality(Ids(out.faraway))
     /\ \A e \in Range(out.nearby) \cup Range(out.faraway) : e.mm = Dist[new][p0[e.o]]

LastH == hist'[Len(hist')]
\* the recorded step is the step taken (guards the generators against inconsistent random draws)
HistConsistent == [][/\ Len(hist') = Len(hist) + 1
                     /\ LastH.old = pos[LastH.o] /\ pos'[LastH.o] = LastH.c
                     /\ \A p \in Objs \ {LastH.o} : pos'[p] = pos[p]]_vars
\* action property: every generated SET satisfies the statement of C20
RoamExact == [][LastH.op = "set" => Statement(pos, cfg, LastH.o, LastH.c, Obs(LastH))]_vars
\* consequences a client relies on
RadiusRespected ==
  [][LastH.op = "set" => /\ \A e \in Range(Obs(LastH).nearby) : e.mm <= Radius
                         /\ \A e \in Range(Obs(LastH).faraway) : e.mm > Radius]_vars
SortedByDistance ==
  [][\A s \in {Obs(LastH).nearby, Obs(LastH).faraway} :
        \A i \in 1..(Len(s) - 1) : s[i].mm <= s[i + 1].mm]_vars
\* invariant: a client that only applies the reported entries knows exactly which pairs are within the radius
ClosePairs == {{a, b} : a \in Objs, b \in Objs} \ {{a} : a \in Objs}
TrackedPairsExact ==
  MatchAll(cfg.pat) =>
    close = {pr \in ClosePairs : /\ \A a \in pr : pos[a] # 0
                                 /\ \A a \in pr, b \in pr : Dist[pos[a]][pos[b]] <= Radius}
=============================================================================
