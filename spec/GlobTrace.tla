----------------------------- MODULE GlobTrace -----------------------------
(* Code -> model: validates the range limits RECORDED from the real          *)
(* glob.Parse (one NDJSON line per pattern: the pattern and the limits it    *)
(* returned for ascending and descending walks) against the requirement      *)
(* Glob!RangeSound over the universe of all strings of length <= MaxStr.     *)
(* Every line gets a verdict printed by TLC (sound / the matching strings    *)
(* the limits would exclude); lines are independent, so they are initial     *)
(* states and TLC's workers judge them in parallel.                          *)
EXTENDS Glob, Json, TLC

CONSTANTS AlphaSeq, MaxStr

Trace == ndJsonDeserialize("limits.ndjson")
Universe == StrsUpTo(AlphaSeq, MaxStr)

VARIABLES l, done
vars == <<l, done>>

Lost(ms, lo, hi, desc) == SelectSeq(ms, LAMBDA i : ~InRange(Universe[i], lo, hi, desc))
LostI(ms, lo, hi) == SelectSeq(ms, LAMBDA i : ~InRangeInclusive(Universe[i], lo, hi))
LostV(ms, lo, hi) == SelectSeq(ms, LAMBDA i : ~InRangeValues(Universe[i], lo, hi, TRUE))
Head3(s) == IF Len(s) > 3 THEN SubSeq(s, 1, 3) ELSE s

Verdict(e) ==
  LET r  == Parse(e.p)
      ms == SelectSeq([i \in 1..Len(Universe) |-> i], LAMBDA i : MatchParsed(r, Universe[i]))
      la == Lost(ms, e.alo, e.ahi, FALSE)
      ld == Lost(ms, e.dlo, e.dhi, TRUE)
      lv == LostV(ms, e.dlo, e.dhi)          \* descending walk of the value index (SEARCH)
      li == LostI(ms, e.alo, e.ahi)          \* ascending walk with inclusive upper limit (KEYS, hooks)
  IN [i |-> e.i, p |-> e.p, cls |-> PrefixClass(e.p), nmatch |-> Len(ms),
      asc_sound |-> la = <<>>, desc_sound |-> ld = <<>>,       \* = RangeSound(p, lo, hi, desc, Universe)
      vdesc_sound |-> lv = <<>>, inc_sound |-> li = <<>>,
      asc_nlost |-> Len(la), desc_nlost |-> Len(ld), vdesc_nlost |-> Len(lv), inc_nlost |-> Len(li),
      asc_lost |-> Head3(la), desc_lost |-> Head3(ld), vdesc_lost |-> Head3(lv)]

Init == l \in 1..Len(Trace) /\ done = FALSE
Next == /\ ~done /\ done' = TRUE /\ l' = l
        /\ PrintT(<<"TV", ToJson(Verdict(Trace[l]))>>)
Spec == Init /\ [][Next]_vars
=============================================================================
